"""C03, whole-model numeric layer ("stage 3"):  generated CellML models -> Parser / Validator / Analyser / Generator
(harness/c03_model_driver.cpp) -> the C text is compiled and run, the Python text is executed (lib/coderun.py) ->
every array entry is compared with an independent evaluation of the MathML (gen/matheval.py).

    model_layer(ctx, build)            called by checks/c03.py run(ctx) after the expression layer
    replay_model(ctx, build, path)     re-runs one replay file written by model_layer and prints expected / got

What is compared (relative 1e-9, absolute 1e-12; NaN equals NaN; infinities equal by sign), for the C and for the
Python profile against the reference, and C against Python:
    constants and initial state values after initialiseVariables, computed constants after computeComputedConstants,
    rates after computeRates, every variable / state / rate after computeVariables, all at voi = the model's
    evaluation point (non-zero, so that a scaled voi matters) and the initial state values.
    Entries that come out of an NLA solve are compared at 1e-6; the generated objective functions are evaluated at
    the reference solution and must vanish (|r| <= 1e-6).

Verdicts
    A failure (compile / load / run error, or a wrong entry) is explained by a KNOWN FINDING only when an equation
    in the dependency closure of the failing entry (any equation for whole-model failures) is unsafe for that
    profile according to the extracted Coq model AND every minimal unsafe site classifies (c03.classify_site) as a
    listed finding, or the closure contains the `d x/d t = x` shape (C03-state-on-rhs-of-own-ode) or an
    initial_value with an upper-case exponent and no decimal point (C03-uppercase-exponent).  Everything else is a
    VIOLATION with the model as replay.  Models the library refuses are generator bugs: counted, never reported.
"""
import hashlib
import json
from fractions import Fraction
import math
import multiprocessing
import os
import re
import shutil
import time

import vf
import astgen
import coderun
import matheval
import mathmodel_gen as G

REL, ABS = 1e-9, 1e-12
NLA_REL = 1e-6
STATE_ON_RHS = "C03-state-on-rhs-of-own-ode"
UPPERCASE = "C03-uppercase-exponent"
LHS_UNSCALED = "C03-known-variable-on-lhs-not-scaled"
BARE_RATE = "C03-bare-rate-on-rhs-voi-scaling"
INIT_ORDER = "C03-initial-value-reference-order"
INIT_SCALED = "C03-initial-value-reference-not-scaled"
RATE_ORDER = "C03-rate-used-before-computed"
PREFIX_EXP = "C03-prefix-with-exponent-scaling"

_HDR = ('<?xml version="1.0" encoding="UTF-8"?>\n<model xmlns="http://www.cellml.org/cellml/2.0#" '
        'xmlns:cellml="http://www.cellml.org/cellml/2.0#" name="%s">\n')


def _one_component(name, variables, equations):
    s = _HDR % name + '  <component name="c">\n'
    for n, iv in variables:
        s += '    <variable name="%s" units="dimensionless"%s/>\n' % (n, "" if iv is None else ' initial_value="%s"' % iv)
    s += '    <math xmlns="http://www.w3.org/1998/Math/MathML">\n'
    for l, r in equations:
        s += "      <apply><eq/>%s%s</apply>\n" % (l, r)
    return s + "    </math>\n  </component>\n</model>\n"


def _cn(x):
    return '<cn cellml:units="dimensionless">%s</cn>' % x


def _ci(x):
    return "<ci>%s</ci>" % x


def _ap(op, *a):
    return "<apply><%s/>%s</apply>" % (op, "".join(a))


def _pw(pieces, other):
    return "<piecewise>%s<otherwise>%s</otherwise></piecewise>" % ("".join("<piece>%s%s</piece>" % p for p in pieces), other)


_ABD = [("a", "2"), ("b", "3"), ("d", "5"), ("y", None)]
# hand-written minimal models: each known finding confirmed through the FULL pipeline on every run
# (name, text, finding expected to be observed)
CORPUS = [
    ("not_operand", _one_component("not_operand", [("a", "2"), ("b", "0"), ("y", None)],
                                   [(_ci("y"), _ap("not", _ap("and", _ci("a"), _ci("b"))))]), "C03-not-operand"),
    ("relational_operand", _one_component("relational_operand", _ABD,
                                          [(_ci("y"), _ap("lt", _ci("a"), _ap("lt", _ci("b"), _ci("d"))))]), "C03-relational-operand"),
    ("divide_by_negated_product", _one_component("divide_by_negated_product", _ABD,
                                                 [(_ci("y"), _ap("divide", _ci("a"), _ap("minus", _ap("times", _ci("b"), _ci("d")))))]),
     "C03-divide-by-negated-product"),
    ("nested_conditional_value", _one_component("nested_conditional_value", [("a", "7"), ("b", "9"), ("d", "5"), ("y", None)],
                                                [(_ci("y"), _pw([(_pw([(_ci("a"), _ap("gt", _ci("b"), _ci("d")))], _ci("b")),
                                                                  _ap("lt", _ci("a"), _ci("d")))], _ci("d")))]),
     "C03-python-nested-conditional"),
    ("nested_conditional_condition", _one_component("nested_conditional_condition", [("a", "7"), ("b", "3"), ("d", "5"), ("y", None)],
                                                    [(_ci("y"), _pw([(_ci("a"), _pw([(_cn(1), _ap("gt", _ci("b"), _ci("d")))], _cn(0)))], _ci("d")))]),
     "C03-python-nested-conditional"),
    ("double_minus", _one_component("double_minus", [("y", None)], [(_ci("y"), _ap("minus", _cn("-3")))]), "C03-double-minus"),
    ("unary_plus", _one_component("unary_plus", _ABD, [(_ci("y"), _ap("minus", _ci("a"), _ap("plus", _ap("plus", _ci("b"), _ci("d")))))]),
     "C03-unary-plus-drops-parentheses"),
    ("logbase_quotient", _one_component("logbase_quotient", _ABD,
                                        [(_ci("y"), _ap("divide", _ci("a"), _ap("log", "<logbase>%s</logbase>" % _cn(3), _ci("d"))))]),
     "C03-logbase-quotient"),
    ("uppercase_exponent", _one_component("uppercase_exponent", [("a", "1E5"), ("y", None)], [(_ci("y"), _ap("plus", _ci("a"), _cn(1)))]),
     UPPERCASE),
    ("state_on_rhs", _one_component("state_on_rhs", [("t", None), ("x", "3")],
                                    [(_ap("diff", "<bvar>%s</bvar>" % _ci("t"), _ci("x")), _ci("x"))]), STATE_ON_RHS),
    ("known_variable_on_lhs", _HDR % "known_variable_on_lhs" +
     '  <units name="cm"><unit prefix="centi" units="metre"/></units>\n  <units name="dm"><unit prefix="deci" units="metre"/></units>\n'
     '  <component name="A">\n    <variable name="a" units="cm" initial_value="5.97" interface="public"/>\n  </component>\n'
     '  <component name="B">\n    <variable name="k" units="dm" interface="public"/>\n    <variable name="y" units="dm"/>\n'
     '    <math xmlns="http://www.w3.org/1998/Math/MathML"><apply><eq/><ci>k</ci><ci>y</ci></apply></math>\n  </component>\n'
     '  <connection component_1="A" component_2="B">\n    <map_variables variable_1="a" variable_2="k"/>\n  </connection>\n</model>\n', LHS_UNSCALED),
    ("bare_rate_on_rhs", _HDR % "bare_rate_on_rhs" +
     '  <units name="ms"><unit prefix="milli" units="second"/></units>\n'
     '  <component name="A">\n    <variable name="t" units="second" interface="public"/>\n'
     '    <variable name="x" units="metre" initial_value="1" interface="public"/>\n'
     '    <math xmlns="http://www.w3.org/1998/Math/MathML"><apply><eq/><apply><diff/><bvar><ci>t</ci></bvar><ci>x</ci></apply>'
     '<cn cellml:units="dimensionless">2</cn></apply></math>\n  </component>\n'
     '  <component name="B">\n    <variable name="tb" units="ms" interface="public"/>\n    <variable name="xb" units="metre" interface="public"/>\n'
     '    <variable name="y" units="dimensionless"/>\n'
     '    <math xmlns="http://www.w3.org/1998/Math/MathML"><apply><eq/><ci>y</ci><apply><diff/><bvar><ci>tb</ci></bvar><ci>xb</ci></apply></apply></math>\n'
     '  </component>\n'
     '  <connection component_1="A" component_2="B">\n    <map_variables variable_1="t" variable_2="tb"/>\n'
     '    <map_variables variable_1="x" variable_2="xb"/>\n  </connection>\n</model>\n', BARE_RATE),
    ("init_reference_order", _one_component("init_reference_order", [("a", "b"), ("b", "2"), ("y", None)],
                                            [(_ci("y"), _ap("plus", _ci("a"), _ci("b")))]), INIT_ORDER),
    ("init_reference_scaled", _HDR % "init_reference_scaled" +
     '  <units name="mV"><unit prefix="milli" units="volt"/></units>\n'
     '  <component name="A">\n    <variable name="k" units="volt" initial_value="3" interface="public"/>\n  </component>\n'
     '  <component name="B">\n    <variable name="kb" units="mV" interface="public"/>\n    <variable name="x" units="mV" initial_value="kb"/>\n'
     '    <variable name="y" units="mV"/>\n'
     '    <math xmlns="http://www.w3.org/1998/Math/MathML"><apply><eq/><ci>y</ci><apply><times/><cn cellml:units="dimensionless">2</cn><ci>x</ci></apply></apply></math>\n'
     '  </component>\n'
     '  <connection component_1="A" component_2="B">\n    <map_variables variable_1="k" variable_2="kb"/>\n  </connection>\n</model>\n', INIT_SCALED),
    ("rate_before_computed", _one_component("rate_before_computed", [("t", None), ("y", "2"), ("x", "1")],
                                            [(_ap("diff", "<bvar>%s</bvar>" % _ci("t"), _ci("y")),
                                              _ap("times", _cn(2), _ap("diff", "<bvar>%s</bvar>" % _ci("t"), _ci("x")))),
                                             (_ap("diff", "<bvar>%s</bvar>" % _ci("t"), _ci("x")), _cn(3))]), RATE_ORDER),
    ("prefix_with_exponent", _HDR % "prefix_with_exponent" +
     '  <units name="m3"><unit units="metre" exponent="3"/></units>\n  <units name="mm3"><unit prefix="milli" units="metre" exponent="3"/></units>\n'
     '  <component name="A">\n    <variable name="v" units="m3" initial_value="2" interface="public"/>\n  </component>\n'
     '  <component name="B">\n    <variable name="vb" units="mm3" interface="public"/>\n    <variable name="y" units="mm3"/>\n'
     '    <math xmlns="http://www.w3.org/1998/Math/MathML"><apply><eq/><ci>y</ci><apply><times/><cn cellml:units="dimensionless">1</cn><ci>vb</ci></apply></apply></math>\n'
     '  </component>\n'
     '  <connection component_1="A" component_2="B">\n    <map_variables variable_1="v" variable_2="vb"/>\n  </connection>\n</model>\n', PREFIX_EXP),
    # scaled references (percent against dimensionless) inside both qualifier kinds, a power exponent, under unary
    # minus and in an initial value given by reference: all must be scaled by the analyser / generator
    ("control_scaled_qualifiers", _HDR % "control_scaled_qualifiers" +
     '  <units name="percent"><unit multiplier="0.01" units="dimensionless"/></units>\n'
     '  <units name="mV"><unit prefix="milli" units="volt"/></units>\n'
     '  <component name="A">\n    <variable name="d" units="dimensionless" initial_value="2" interface="public"/>\n'
     '    <variable name="x0" units="volt" interface="public"/>\n  </component>\n'
     '  <component name="B">\n    <variable name="dp" units="percent" interface="public"/>\n'
     '    <variable name="c0" units="mV" initial_value="1500"/>\n    <variable name="xi" units="mV" initial_value="c0" interface="public"/>\n'
     + "".join('    <variable name="r%d" units="dimensionless"/>\n' % i for i in range(1, 6)) +
     '    <math xmlns="http://www.w3.org/1998/Math/MathML">\n'
     '      <apply><eq/><ci>r1</ci><apply><root/><degree><ci>dp</ci></degree><cn cellml:units="dimensionless">9</cn></apply></apply>\n'
     '      <apply><eq/><ci>r2</ci><apply><log/><logbase><ci>dp</ci></logbase><cn cellml:units="dimensionless">8</cn></apply></apply>\n'
     '      <apply><eq/><ci>r3</ci><apply><power/><cn cellml:units="dimensionless">3</cn><ci>dp</ci></apply></apply>\n'
     '      <apply><eq/><ci>r4</ci><apply><sin/><apply><minus/><ci>dp</ci></apply></apply></apply>\n'
     '      <apply><eq/><ci>r5</ci><apply><root/><degree><apply><plus/><ci>dp</ci><cn cellml:units="dimensionless">1</cn></apply></degree><cn cellml:units="dimensionless">27</cn></apply></apply>\n'
     '    </math>\n  </component>\n'
     '  <connection component_1="A" component_2="B">\n    <map_variables variable_1="d" variable_2="dp"/>\n'
     '    <map_variables variable_1="x0" variable_2="xi"/>\n  </connection>\n</model>\n', None),
    # the same shapes written so that the generator prints them correctly: must all pass
    ("control_safe", _one_component("control_safe", _ABD + [("z", None), ("w", None), ("t", None), ("x", "3")],
                                    [(_ci("y"), _ap("minus", _ci("a"), _ap("plus", _ci("b"), _ci("d")))),
                                     (_ci("z"), _ap("divide", _ci("a"), _ap("times", _ci("b"), _ap("minus", _ci("d"))))),
                                     (_ci("w"), _ap("and", _ap("lt", _ci("a"), _ci("b")), _ap("not", _ci("d")))),
                                     (_ap("diff", "<bvar>%s</bvar>" % _ci("t"), _ci("x")), _ap("plus", _ci("x"), _ci("t")))]), None),
    # one equation per parenthesisation decision of generateOperatorCode that the generator gets right
    ("control_parentheses", _one_component("control_parentheses", [("a", "2"), ("b", "3"), ("d", "5"), ("e", "-4")] + [("y%d" % i, None) for i in range(1, 27)], [
        (_ci("y1"), _ap("minus", _ci("a"), _ap("minus", _ci("b"), _ci("d")))),
        (_ci("y2"), _ap("minus", _ci("a"), _ap("plus", _ci("b"), _ci("d")))),
        (_ci("y3"), _ap("times", _ap("plus", _ci("a"), _ci("b")), _ci("d"))),
        (_ci("y4"), _ap("times", _ci("a"), _ap("minus", _ci("b"), _ci("d")))),
        (_ci("y5"), _ap("divide", _ci("a"), _ap("times", _ci("b"), _ci("d")))),
        (_ci("y6"), _ap("divide", _ci("a"), _ap("divide", _ci("b"), _ci("d")))),
        (_ci("y7"), _ap("divide", _ap("minus", _ci("a"), _ci("b")), _ci("d"))),
        (_ci("y8"), _ap("minus", _ap("plus", _ci("a"), _ci("b")))),
        (_ci("y9"), _ap("minus", _ap("minus", _ci("a"), _ci("b")))),
        (_ci("y10"), _ap("power", _ap("plus", _ci("a"), _ci("b")), _ap("minus", _ci("d"), _ci("b")))),
        (_ci("y11"), _ap("root", "<degree>%s</degree>" % _ap("plus", _ci("a"), _ci("b")), _ci("d"))),
        (_ci("y12"), _ap("and", _ap("lt", _ci("a"), _ci("b")), _ap("leq", _ci("b"), _ci("d")))),
        (_ci("y13"), _ap("or", _ap("geq", _ci("a"), _ci("b")), _ap("gt", _ci("d"), _ci("b")))),
        (_ci("y14"), _ap("xor", _ap("gt", _ci("a"), _ci("b")), _ap("neq", _ci("b"), _ci("d")))),
        (_ci("y15"), _ap("plus", _ci("a"), _pw([(_ci("b"), _ap("lt", _ci("a"), _ci("d")))], _ci("d")))),
        (_ci("y16"), _ap("minus", _ci("a"), _cn("-4"))),
        (_ci("y17"), _ap("leq", _ci("a"), _ci("b"))),
        (_ci("y18"), _ap("geq", _ci("a"), _ci("b"))),
        (_ci("y19"), _ap("times", _ci("a"), _ci("b"), _ci("d"), _ci("e"))),
        (_ci("y20"), _ap("minus", _ap("minus", _ci("a"), _ci("b")), _ci("d"))),
        (_ci("y21"), _ap("log", "<logbase>%s</logbase>" % _cn(2), _ap("times", _ci("a"), _ci("b")))),
        (_ci("y22"), _ap("not", _ci("a"))),
        (_ci("y23"), _ap("plus", _ci("a"), _ci("b"), _ci("d"), _ci("e"))),
        (_ci("y24"), _ap("divide", _ap("times", _ci("a"), _ci("b")), _ap("plus", _ci("d"), _ci("e")))),
        (_ci("y25"), _ap("power", _ci("a"), _ap("minus", _ci("b")))),
        (_ci("y26"), _pw([(_ci("a"), _ap("gt", _ci("a"), _ci("b"))), (_ci("b"), _ap("gt", _ci("b"), _ci("d")))], _ap("times", _ci("d"), _ci("e"))))]), None),
]


# --------------------------------------------------------------------------- helpers
def close(a, b, rel=REL, abs_=ABS):
    if a != a or b != b:
        return a != a and b != b
    if a in (math.inf, -math.inf) or b in (math.inf, -math.inf):
        return a == b
    return abs(a - b) <= max(abs_, rel * max(abs(a), abs(b)))


def _gen_worker(job):
    seed, mdl, workdir, allowed, positions, nla_prob = job
    try:
        m = G.generate(seed, mdl, workdir, allowed_plants=allowed, positions=positions, nla_prob=nla_prob)
        return {"seed": seed, "xml": m["xml"], "meta": m["meta"]}
    except Exception as ex:            # a generator failure must not kill the run
        return {"seed": seed, "error": repr(ex)}


def generate_models(seeds, mdl, workdir, allowed_plants=None):
    """models for the seeds, in parallel.  allowed_plants: finding ids the generator may plant in its unsafe models
    (the check passes the ids that are listed as known, so that an unlisted defect is only shown by its minimal
    hand-written model and not by a hundred random ones)"""
    # every model gets three of the position kinds at which a reference to a SCALED variable must occur, in turn, so
    # that each kind is requested n*3/len(BOOST_KINDS) times; the first two models carry an NLA system for sure
    K = G.BOOST_KINDS
    jobs = [(s, mdl, workdir, allowed_plants, [K[(3 * i + j) % len(K)] for j in range(3)], 1.0 if i < 2 else 0.08)
            for i, s in enumerate(seeds)]
    if len(jobs) <= 2:
        return [_gen_worker(j) for j in jobs]
    with multiprocessing.get_context("fork").Pool(min(vf.NCPU, len(jobs))) as pool:
        return pool.map(_gen_worker, jobs, chunksize=max(1, len(jobs) // (4 * vf.NCPU)))


def parse_driver_line(line):
    """OK line of harness/c03_model_driver.cpp -> dict; anything else -> {"ok": False, "line": line}"""
    if not line.startswith("OK "):
        return {"ok": False, "line": line}
    m = re.match(r"OK type=(\S+) states=(\d+) variables=(\d+) voi=(\S+) warnings=(\d+) vars=(\S*) eqs=(\S*)$", line)
    if not m:
        return {"ok": False, "line": line}
    out = {"ok": True, "type": m.group(1), "nstates": int(m.group(2)), "nvariables": int(m.group(3)),
           "warnings": int(m.group(5)), "states": [], "variables": [], "voi": None}
    if m.group(4) != "-":
        cv, _units = m.group(4).rsplit(":", 1)
        out["voi"] = tuple(cv.split(".", 1))
    for ent in [x for x in m.group(6).split(",") if x]:
        idx, typ, cv, units, init = ent.split(":")
        rec = {"index": int(idx), "type": typ, "var": tuple(cv.split(".", 1)), "units": units,
               "init": None if init == "-" else tuple(init.split(".", 1))}
        (out["states"] if typ == "state" else out["variables"]).append(rec)
    out["eqs"] = m.group(7)
    return out


def run_pipeline(drv, paths, workdir, tag):
    """run harness/c03_model_driver.cpp over the files, sharded over processes; one parsed line per path"""
    import c03
    nsh = max(1, min(vf.NCPU, len(paths)))
    lines = c03.run_sharded(drv, "gen", paths, workdir, tag, nsh=nsh)
    return [parse_driver_line(l if l is not None else "<missing>") for l in lines]


def parse_dump(text):
    """<path>.dump of harness/c03_model_driver.cpp -> {"type", "states": [(index, first eq)], "variables": [(index, type,
    has_init, first eq)], "eqs": [{"pos", "type", "nla", "vars": [(kind, index)], "deps", "sibs", "srb"}], "asts": {pos: line}}"""
    d = {"type": None, "states": [], "variables": [], "eqs": [], "asts": {}}

    def ints(x):
        return [] if x == "-" else [int(y) for y in x.split(",") if y != "-"]
    for line in text.split("\n"):
        if line.startswith("T "):
            d["type"] = line[2:].strip()
        elif line.startswith("S "):
            f = line.split()
            d["states"].append((int(f[1]), None if f[2] == "-" else int(f[2])))
        elif line.startswith("V "):
            f = line.split()
            d["variables"].append((int(f[1]), f[2], f[3] == "1", None if f[4] == "-" else int(f[4])))
        elif line.startswith("E "):
            f = line.split()
            d["eqs"].append({"pos": int(f[1]), "type": f[2], "nla": None if f[3] == "-" else int(f[3]),
                             "vars": [] if f[4] == "-" else [(x.split(":")[0], int(x.split(":")[1])) for x in f[4].split(",")],
                             "deps": ints(f[5]), "sibs": ints(f[6]), "srb": f[7] == "1"})
        elif line.startswith("A "):
            head, ast = line.split("\t", 1)
            d["asts"][int(head.split()[1])] = ast
    return d


def _same_ast_line(a, b, any_number=False):
    """prefix-form ASTs equal token by token; CN texts may differ in the 15-digit rendering of the same factor
    (any_number: any two numeric CN texts match, i.e. only the shape is compared)"""
    ta, tb = a.split(" "), b.split(" ")
    if len(ta) != len(tb):
        return False
    for x, y in zip(ta, tb):
        if x == y:
            continue
        if x.startswith("=") and y.startswith("="):
            try:
                if close(float(x[1:]), float(y[1:]), 1e-12, 0.0) or any_number:
                    continue
            except ValueError:
                pass
        return False
    return True


def scale_cases(r):
    """for one processed model: [(equation position in the analyser model, case line for `driver scale`, real AST)]
    — the equation as written (unscaled AST), the factor of every variable it mentions relative to the primary the
    analyser chose, and the AST the analyser really produced (AnalyserEquation::ast())"""
    desc, res, prim, info, dump = r["desc"], r["res"], r["prim"], r["info"], r["dump"]
    if dump is None:
        return []
    slot = {}
    for rec in info["states"]:
        slot[rec["var"]] = ("state", rec["index"])
    for rec in info["variables"]:
        slot[rec["var"]] = (rec["type"], rec["index"])
    nla_left = [e for e in dump["eqs"] if e["type"] == "nla"]
    out = []
    for q in r["recs"]:
        comp = q["comp"]
        if q["kind"] == "nla":
            if not nla_left:
                continue
            e = nla_left.pop(0)
            unknown = "-"
        else:
            pk = tuple(prim[q["defines"]])
            want = slot.get(pk)
            cands = [e for e in dump["eqs"] if e["type"] != "nla" and want in [(k, i) for k, i in e["vars"]]]
            if not cands:
                # the analyser made an NLA system of an equation the reference takes for an assignment (or the other way round)
                continue
            e = cands[0]
            unknown = pk[1]
        names, diffs = [], []
        for side in (q["lhs"], q["rhs"]):
            matheval.variables_in(side, names, diffs)
        allnames = set(names) | {x for x, t in diffs} | {t for x, t in diffs}
        facs = []
        for n in sorted(allnames):
            key = (comp, n)
            if key not in res.class_of:
                continue
            f = res.m(tuple(prim[res.class_of[key]])) / res.m(key)
            if abs(f - 1.0) <= 1e-12:
                continue
            fr = Fraction(float(f)).limit_denominator(10 ** 12)
            facs.append("%s=%d/%d,%s,%s" % (n, fr.numerator, fr.denominator, "%.15g" % float(f), "%.15g" % (1.0 / float(f))))
        raw = ("EQUALITY", None, G.raw_ast(q["lhs"]), G.raw_ast(q["rhs"]))
        kind = {"ode": "ode", "alg": "algebraic", "nla": "nla"}[q["kind"]]
        out.append((e["pos"], "%s\t%s\t%s\t%s" % (kind, unknown, ";".join(facs), astgen.line(raw)), dump["asts"].get(e["pos"], "<missing>")))
    return out


def scaling_tie(ctx, rs, mdl, workdir, counters, max_violations=3):
    """ScaleDefs (extracted) against the analyser: for every equation of every model the AST after unit scaling"""
    import c03
    cases, owner = [], []
    for r in rs:
        if r["status"] != "ok":
            continue
        for pos, line, real in scale_cases(r):
            cases.append(line)
            owner.append((r, pos, real))
    if not cases:
        return 0, 0
    got = c03.run_sharded(mdl, "scale", cases, workdir, "scale")
    bad = 0
    scaled = 0
    for (r, pos, real), line, g in zip(owner, cases, got):
        scaled += ";" in line.split("\t")[2] or bool(line.split("\t")[2])
        if _same_ast_line(g, real):
            continue
        if _same_ast_line(g, real, any_number=True) and any(PREFIX_EXP in v for v in r["class_ids"].values()):
            # same wraps at the same nodes; the VALUE of a factor differs and the model has units with a prefix and an
            # exponent on one unit child: Units::scalingFactor (an input of the scaling pass) is what is wrong
            if ctx.known_finding(PREFIX_EXP, "model %s, equation %d: factor in the analysed AST %s, expected %s" % (
                    r["model"]["name"], pos, real[:160], g[:160])):
                counters["findings"][PREFIX_EXP] = counters["findings"].get(PREFIX_EXP, 0) + 1
                continue
        bad += 1
        counters["violations"] += 1
        if bad <= max_violations:
            ctx.violation("C03 model %s, equation %d: the analysed (unit-scaled) AST differs from the model ScaleDefs.analysed_ast" % (r["model"]["name"], pos),
                          "scale_%s_%d.json" % (r["model"]["name"], pos),
                          {"mode": "model", "name": r["model"]["name"], "meta": r["model"]["meta"], "voi": r["voi"],
                           "problem": "unit scaling of equation %d" % pos, "case": line, "library_ast": real, "model_ast": g,
                           "cellml": r["model"]["xml"]})
    return len(cases), scaled


METHODS = (("init", "initialiseVariables"), ("consts", "computeComputedConstants"), ("rates", "computeRates"), ("vars", "computeVariables"))


def emitted_slots(c_text):
    """{method: [array entries assigned / findRoot calls, in order]} parsed from the generated C implementation"""
    out = {}
    for key, name in METHODS:
        m = re.search(r"\nvoid %s\([^)]*\)\s*\{(.*?)\n\}" % name, c_text, flags=re.S)
        seq = []
        if m:
            for line in m.group(1).split("\n"):
                am = re.match(r"\s*((?:variables|states|rates)\[\d+\]) = ", line)
                if am:
                    seq.append(am.group(1))
                    continue
                fm = re.match(r"\s*(findRoot\d+)\(", line)
                if fm:
                    seq.append(fm.group(1))
        out[key] = seq
    return out


def order_tie(ctx, rs, order_mdl, workdir, counters, max_violations=3):
    """OrderDefs / ExternalDefs.method_bodies (extracted) against the generator: for every model the sequence of array
    entries assigned by each of the four generated methods, exactly; and the ordering claim ordered_all evaluated on the
    analysed model the library produced"""
    ok = [r for r in rs if r["status"] == "ok" and r.get("dump") is not None and os.path.exists(r["path"] + ".dump")]
    if not ok:
        return {"models": 0}
    lst = os.path.join(workdir, "order.cases")
    with open(lst, "w") as f:
        f.write("".join(r["path"] + ".dump\n" for r in ok))
    out = vf.sh([order_mdl, lst], timeout=1200)[1].split("\n")
    stats = {"models": len(ok), "methods_compared": 0, "statements_compared": 0, "order_differs": 0, "ordering_claim_false": 0}
    bad = 0
    for r, line in zip(ok, out):
        real = emitted_slots(r["c"])
        fields = dict(x.split("=", 1) for x in line.split("\t") if "=" in x)
        problems = []
        if not fields:
            problems.append("model driver: %s" % line[:200])
        for key, _name in METHODS:
            model_seq = [x for x in fields.get(key, "").split(",") if x]
            stats["methods_compared"] += 1
            stats["statements_compared"] += len(real[key])
            if model_seq != real[key] and key == "rates" and any(q["state_on_rhs"] for q in r["recs"]) \
                    and [x.replace("states[", "rates[") for x in real[key]] == model_seq:
                # d x/d t = x: the analyser swapped the sides, the statement assigns states[i] where the ODE's slot is
                # rates[i] (C03-state-on-rhs-of-own-ode); the ORDER is the model's
                if ctx.known_finding(STATE_ON_RHS, "model %s: computeRates assigns %s" % (r["model"]["name"], ",".join(real[key]))):
                    continue
            if model_seq != real[key]:
                problems.append("%s: generated %s, model %s" % (key, ",".join(real[key]), ",".join(model_seq)))
        if problems:
            stats["order_differs"] += 1
        if fields.get("ordered", "111") != "111":
            stats["ordering_claim_false"] += 1
            problems.append("ordered_all is false for (consts, rates, vars) = %s: an equation is emitted before a dependency the "
                            "generator wants (cyclic dependencies?)" % fields.get("ordered"))
        if problems:
            bad += 1
            counters["violations"] += 1
            if bad <= max_violations:
                ctx.violation("C03 model %s: emission order: %s" % (r["model"]["name"], "; ".join(problems)[:400]),
                              "order_%s.json" % r["model"]["name"],
                              {"mode": "model", "name": r["model"]["name"], "meta": r["model"]["meta"], "voi": r["voi"],
                               "problem": problems, "dump": open(r["path"] + ".dump").read(), "cellml": r["model"]["xml"]})
    return stats


def code_lines(text, array, index):
    """lines of generated code that assign <array>[index]"""
    pat = re.compile(r"^\s*%s\[%d\] = .*$" % (array, index), flags=re.M)
    return [m.group(0).strip() for m in pat.finditer(text)]


# --------------------------------------------------------------------------- judging one model
class Judged:
    def __init__(self):
        self.failures = {"C": [], "Py": []}      # (what, classes involved or None for whole-model, detail dict)
        self.compared = 0
        self.cross = []                          # C vs Python disagreements where the reference is unavailable
        self.notes = []
        self.reference_errors = 0
        self.late = set()                        # computed constants not yet right after computeComputedConstants


def _deps_closure(res, recs, start_classes, init_refs=None, with_classes=False):
    """equation records in the dependency closure of the given classes (None = all equations); with_classes: also the
    set of classes of the closure (initial values given by reference are followed through init_refs)"""
    if start_classes is None:
        return (list(recs), set(range(len(res.classes)))) if with_classes else list(recs)
    by_class = {}
    nla_recs = [r for r in recs if r["kind"] == "nla"]
    for r in recs:
        if r["defines"] is not None:
            by_class.setdefault(r["defines"], []).append(r)
    seen_c, out = set(), []
    todo = list(start_classes)
    while todo:
        k = todo.pop()
        if k in seen_c:
            continue
        seen_c.add(k)
        if init_refs and k in init_refs:
            todo.append(init_refs[k])
        rs = list(by_class.get(k, []))
        if res.kind.get(k) == "nla":
            for s in res.nla_systems:
                if k in s[0]:
                    for r in nla_recs:
                        if any(r["lhs"] is l and r["rhs"] is rr for _, l, rr in s[1]):
                            rs.append(r)
        for r in rs:
            if r not in out:
                out.append(r)
            for side in (r["lhs"], r["rhs"]):
                names, diffs = matheval.variables_in(side)
                for n in names:
                    todo.append(res.class_of[(r["comp"], n)])
                for x, t in diffs:
                    todo.append(res.class_of[(r["comp"], x)])
    return (out, seen_c) if with_classes else out


def rates_read_early(c_text):
    """indices i such that computeRates of the generated C text reads rates[i] on a line before the one assigning it"""
    m = re.search(r"void computeRates\([^)]*\)\s*\{(.*?)\n\}", c_text, flags=re.S)
    early, assigned = set(), set()
    if not m:
        return early
    for line in m.group(1).split("\n"):
        am = re.match(r"\s*rates\[(\d+)\] = (.*)$", line)
        rhs = am.group(2) if am else line
        for k in re.findall(r"rates\[(\d+)\]", rhs):
            if int(k) not in assigned:
                early.add(int(k))
        if am:
            assigned.add(int(am.group(1)))
    return early


def class_level_shapes(desc, res, drv_info, prim):
    """({class index: set of finding ids}, {class: class its initial value names}) for the shapes that concern a
    variable rather than an equation"""
    ids, init_refs = {}, {}
    idx = {}
    for arr in ("variables", "states"):
        for rec in drv_info[arr]:
            if rec["var"] in res.class_of:
                idx[res.class_of[rec["var"]]] = (arr, rec["index"])
    defs = {u["name"]: u for u in desc.get("units", [])}
    bad = set()

    def is_bad(name, stack=()):
        if name in bad:
            return True
        if name not in defs or name in stack:
            return False
        for ch in defs[name]["unit"]:
            pre, ex = ch.get("prefix"), ch.get("exponent")
            has_pre = pre not in (None, "", "0", 0)
            has_ex = ex not in (None, "") and float(ex) != 1.0
            if (has_pre and has_ex) or is_bad(ch["units"], stack + (name,)):
                bad.add(name)
                return True
        return False
    for c in desc["components"]:
        for v in c["variables"]:
            key = (c["name"], v["name"])
            if key not in res.class_of:
                continue
            k = res.class_of[key]
            if is_bad(v["units"]):
                # a unit child with both a prefix and an exponent other than 1: the prefix is applied without the exponent
                ids.setdefault(k, set()).add(PREFIX_EXP)
            iv = (v.get("initial_value") or "").strip()
            ref = (c["name"], iv)
            if iv and ref in res.class_of:
                kr = res.class_of[ref]
                init_refs[k] = kr
                a, b = idx.get(k), idx.get(kr)
                # initialiseVariables assigns in index order: the named variable is assigned on a later line
                if a and b and a[0] == "variables" and b[0] == "variables" and b[1] > a[1]:
                    ids.setdefault(k, set()).add(INIT_ORDER)
                # the named variable is itself a scaled view of its class: its own factor is not applied
                if abs(res.m(tuple(prim[kr])) / res.m(ref) - 1.0) > 1e-12:
                    ids.setdefault(k, set()).add(INIT_SCALED)
    return ids, init_refs


def analyse_shapes(desc, res, drv_info, mdl, workdir, tag, c_text=""):
    """per equation: safety in both profiles and the known-finding ids of its minimal unsafe sites, computed from the
    primaries the analyser REALLY chose (driver output).  Returns (recs, model-level ids from initial values)."""
    import c03
    prim = G.predicted_primaries(desc, res)
    for rec in drv_info["states"] + drv_info["variables"]:
        if rec["var"] in res.class_of:
            prim[res.class_of[rec["var"]]] = rec["var"]
    if drv_info["voi"] is not None and drv_info["voi"] in res.class_of:
        prim[res.class_of[drv_info["voi"]]] = drv_info["voi"]
    recs = G.model_equation_asts(desc, res, prim)
    ans = G.safety_query(mdl, [r["ast"] for r in recs], workdir, tag)
    early = rates_read_early(c_text)
    state_index = {res.class_of[rec["var"]]: rec["index"] for rec in drv_info["states"] if rec["var"] in res.class_of}
    for r, a in zip(recs, ans):
        # the rate of a state read by an equation of computeRates before the line that assigns it
        used = []
        for side in (r["lhs"], r["rhs"]):
            if not (r["kind"] == "ode" and side[0] == "diff" and side is not r.get("body")):
                used += [x for x, _t in matheval.variables_in(side)[1]]
        r["rate_order"] = any(state_index.get(res.class_of.get((r["comp"], x))) in early for x in used)
        r["safe"] = {"C": a["safeC"], "Py": a["safePy"]}
        r["ids"] = {"C": [c03.classify_site("C", s) for s in a["sitesC"]], "Py": [c03.classify_site("Py", s) for s in a["sitesPy"]]}
        r["sites"] = {"C": [astgen.line(s) for s in a["sitesC"]], "Py": [astgen.line(s) for s in a["sitesPy"]]}
        r["gen"] = {"C": a["genC"], "Py": a["genPy"]}
        # d x/d t = x : the analyser swaps the sides because the state's name is found on the right-hand side
        r["state_on_rhs"] = bool(r["kind"] == "ode" and r["body"][0] == "ci" and res.class_of[(r["comp"], r["body"][1])] == r["defines"])

        def factor(name, comp=r["comp"]):
            return res.m(tuple(prim[res.class_of[(comp, name)]])) / res.m((comp, name))
        # `k = y` / `k = y + 1` with k a KNOWN variable whose units differ from its class' primary: scaleEquationAst
        # takes every bare <ci> on the left of the equality for the computed variable and does not scale it
        r["lhs_unscaled"] = bool(r["lhs"][0] == "ci" and ((r["kind"] == "alg" and r["body"] is r["lhs"]) or r["kind"] == "nla")
                                 and abs(factor(r["lhs"][1]) - 1.0) > 1e-12)
        # `y = d x/d t` (the rate alone on the right) where the local t is scaled: scaleEquationAst sees the DIFF node
        # directly under the equality, takes it for an ODE being defined and multiplies by f instead of 1/f
        r["bare_rate"] = bool(r["kind"] == "alg" and r["body"][0] == "diff" and r["body"] is r["rhs"]
                              and abs(factor(r["body"][2]) - 1.0) > 1e-12)
    upper = []
    for c in desc["components"]:
        for v in c["variables"]:
            iv = v.get("initial_value") or ""
            if "E" in iv and "." not in iv:
                upper.append("%s.%s=%s" % (c["name"], v["name"], iv))
    return recs, upper, prim


def explain(lang, recs, upper, whole_model, class_ids=None, classes=()):
    """(known ids explaining a failure, unexplained reasons).  recs = equations that may have caused it,
    classes = the variables (equivalence classes) it depends on, class_ids = class_level_shapes(...)[0]."""
    ids, unknown = set(), []
    for k in classes:
        ids |= (class_ids or {}).get(k, set())
    for r in recs:
        if r["state_on_rhs"]:
            ids.add(STATE_ON_RHS)
        if r["lhs_unscaled"]:
            ids.add(LHS_UNSCALED)
        if r["bare_rate"]:
            ids.add(BARE_RATE)
        if r.get("rate_order"):
            ids.add(RATE_ORDER)
        if not r["safe"][lang]:
            for i, s in zip(r["ids"][lang], r["sites"][lang]):
                if i is None:
                    unknown.append("unsafe shape outside the known classes: " + s[:200])
                else:
                    ids.add(i)
            if not r["ids"][lang]:
                unknown.append("equation reported unsafe without a site")
    if whole_model and upper:
        ids.add(UPPERCASE)
    return ids, unknown


def judge_model(desc, res, drv_info, runs, layouts, nla_expected):
    """compare the arrays of both profiles with the reference.  Returns Judged."""
    J = Judged()
    voi_var = drv_info["voi"]

    def expected_entry(arr, rec):
        """(value, class index, is_nla_dependent) or None when the reference has no value"""
        key = rec["var"]
        if key not in res.class_of:
            return None
        k = res.class_of[key]
        try:
            if arr == "rates":
                return res.rate_value(key, voi_var), k
            return res.var_value(*key), k
        except (matheval.EvalError, KeyError, ZeroDivisionError):
            return None

    nla_dep = _nla_dependent(res, desc)
    checks = []          # (phase, array, rec, kinds to check at this phase)
    for rec in drv_info["states"]:
        checks.append(("init", "states", rec))
        checks.append(("rates", "rates", rec))
        checks.append(("vars", "states", rec))
        checks.append(("vars", "rates", rec))
    for rec in drv_info["variables"]:
        if rec["type"] == "constant":
            checks.append(("init", "variables", rec))
            checks.append(("consts", "variables", rec))
        if rec["type"] == "computed_constant":
            # SOFT: a "computed constant" that the analyser decided to obtain from an NLA system is typed
            # computed_constant but solved in computeVariables; the property speaks about values, not about which
            # function delivers them, so a late computed constant is only counted (J.late), the final value decides
            checks.append(("consts-soft", "variables", rec))
        checks.append(("vars", "variables", rec))

    for lang in ("C", "Py"):
        run = runs[lang]
        if not run["ok"]:
            what = {"compile": "the generated C code does not compile", "run": "the generated code fails when run",
                    "timeout": "the generated code does not terminate", "parse": "unreadable output"}.get(run["error"], str(run["error"]))
            if lang == "Py" and run["error"] == "run":
                tail = (run["stderr"] or "").strip().split("\n")[-1][:200]
                what = "the generated Python code fails: " + tail
            if lang == "C" and run["error"] == "compile":
                what += ": " + " | ".join(l.strip() for l in run["compile_stderr"].split("\n") if "error" in l)[:300]
            J.failures[lang].append((what, None, {}))
            continue
        if run.get("nla_fail"):
            J.notes.append("%s: %d of %d nlaSolve calls did not converge" % (lang, run["nla_fail"], run["nla_calls"]))
        for phase, arr, rec in checks:
            soft = phase.endswith("-soft")
            phase = phase.replace("-soft", "")
            got_arr = run["phases"].get(phase, {}).get(arr)
            if got_arr is None or rec["index"] >= len(got_arr):
                J.failures[lang].append(("array %s missing after phase %s" % (arr, phase), None, {}))
                continue
            got = got_arr[rec["index"]]
            exp = expected_entry(arr, rec)
            if exp is None:
                J.reference_errors += 1
                continue
            val, k = exp
            J.compared += 1
            loose = k in nla_dep
            if soft:
                if not close(got, val, NLA_REL if loose else REL, 1e-9 if loose else ABS):
                    J.late.add("%s.%s" % rec["var"])
                continue
            if not close(got, val, NLA_REL if loose else REL, 1e-9 if loose else ABS):
                J.failures[lang].append(("%s[%d] (%s %s.%s, %s) after %s" % (arr, rec["index"], rec["type"], rec["var"][0], rec["var"][1], rec["units"], phase),
                                         [k], {"array": arr, "index": rec["index"], "phase": phase, "expected": val, "got": got,
                                               "variable": "%s.%s" % rec["var"], "units": rec["units"], "type": rec["type"]}))
        # residuals of the generated objective functions at the reference solution
        for idx, f in sorted(run.get("resid", {}).items()):
            J.compared += len(f)
            bad = [x for x in f if not (abs(x) <= 1e-6)]
            if bad:
                J.failures[lang].append(("objective function %d does not vanish at the reference solution" % idx,
                                         nla_expected.get(idx, {}).get("classes"), {"residuals": f, "u": nla_expected.get(idx, {}).get("u")}))
    # C against Python (all phases, all entries), only reported on its own when the reference could not judge
    if runs["C"]["ok"] and runs["Py"]["ok"]:
        for phase in coderun.PHASES:
            pc, pp = runs["C"]["phases"].get(phase, {}), runs["Py"]["phases"].get(phase, {})
            for arr in pc:
                a, b = pc.get(arr, []), pp.get(arr, [])
                if len(a) != len(b):
                    J.cross.append("%s after %s: %d entries in C, %d in Python" % (arr, phase, len(a), len(b)))
                    continue
                for i, (x, y) in enumerate(zip(a, b)):
                    J.compared += 1
                    if not close(x, y, NLA_REL if nla_dep else REL, 1e-9 if nla_dep else ABS):
                        J.cross.append("%s[%d] after %s: C %r, Python %r" % (arr, i, phase, x, y))
    return J


def _nla_dependent(res, desc):
    """classes whose value depends on an NLA solve"""
    dep = {k for k, kind in res.kind.items() if kind == "nla"}
    if not dep:
        return dep
    changed = True
    while changed:
        changed = False
        for table in (res.expl_def, res.ode_def):
            for k, (comp, _x, body) in table.items():
                if k in dep:
                    continue
                names, diffs = matheval.variables_in(body)
                ks = {res.class_of[(comp, n)] for n in names} | {res.class_of[(comp, x)] for x, t in diffs}
                if ks & dep:
                    dep.add(k)
                    changed = True
    return dep


# --------------------------------------------------------------------------- one batch of models through everything
def process(ctx, build, drv, mdl, models, workdir, tag):
    """models: list of {"name", "xml", "meta"}.  Returns list of per-model result dicts (see keys below)."""
    os.makedirs(workdir, exist_ok=True)
    paths = []
    for m in models:
        p = os.path.join(workdir, m["name"] + ".cellml")
        with open(p, "w") as f:
            f.write(m["xml"])
        paths.append(p)
    infos = run_pipeline(drv, paths, workdir, tag)
    prepared = []
    jobs = []
    for m, p, info in zip(models, paths, infos):
        r = {"model": m, "path": p, "info": info, "status": "ok"}
        prepared.append(r)
        if not info["ok"]:
            r["status"] = "crashed" if info["line"].startswith(("CRASH", "THROW", "TIMEOUT", "<missing>")) else "rejected"
            continue
        try:
            desc = matheval.parse_cellml(m["xml"])
            voi = float(m["meta"].get("voi", 0.0))
            res = matheval.evaluate(desc, voi=voi, voi_var=info["voi"])
        except Exception as ex:
            r["status"] = "reference_failed"
            r["error"] = repr(ex)
            continue
        r["desc"], r["res"], r["voi"] = desc, res, voi
        r["dump"] = parse_dump(open(p + ".dump").read()) if os.path.exists(p + ".dump") else None
        r["c"] = open(p + ".c").read()
        r["h"] = open(p + ".h").read()
        r["py"] = open(p + ".py").read()
        # NLA probes: u = the reference values of the unknowns, in the order of the generated objective function
        by_index = {rec["index"]: rec for rec in info["variables"]}
        probes, expected = {}, {}
        layouts = {"C": coderun.nla_layout(r["c"]), "Py": coderun.nla_layout(r["py"])}
        r["layouts"] = layouts
        r["nla_cover"] = None
        if layouts["C"]:
            r["nla_cover"] = True
            for idx, lay in layouts["C"].items():
                u, ks = [], []
                for arr, i in lay:
                    rec = by_index.get(i)
                    if arr != "variables" or rec is None or rec["var"] not in res.class_of:
                        u = None
                        break
                    try:
                        u.append(res.var_value(*rec["var"]))
                        ks.append(res.class_of[rec["var"]])
                    except matheval.EvalError:
                        u = None
                        break
                if u is None or layouts["Py"].get(idx) != lay:
                    r["nla_cover"] = False
                    continue
                probes[idx] = u
                expected[idx] = {"u": u, "classes": ks}
        r["nla_expected"] = expected
        kw = {"workdir": workdir, "name": m["name"], "voi": voi, "nla_probe": probes}
        r["jobs"] = (len(jobs), len(jobs) + 1)
        jobs.append(("c", dict(kw, impl_c_text=r["c"], iface_h_text=r["h"], keep=False)))
        jobs.append(("py", dict(kw, impl_py_text=r["py"])))
    results = coderun.run_many(jobs)
    for r in prepared:
        if r["status"] != "ok":
            continue
        r["runs"] = {"C": results[r["jobs"][0]], "Py": results[r["jobs"][1]]}
        r["judged"] = judge_model(r["desc"], r["res"], r["info"], r["runs"], r["layouts"], r["nla_expected"])
    # shape analysis only where something failed (and for the statistics of unsafe models)
    for r in prepared:
        if r["status"] != "ok":
            continue
        r["recs"], r["upper"], r["prim"] = analyse_shapes(r["desc"], r["res"], r["info"], mdl, workdir, tag + "_" + r["model"]["name"], r["c"])
        r["class_ids"], r["init_refs"] = class_level_shapes(r["desc"], r["res"], r["info"], r["prim"])
    return prepared


def report(ctx, r, counters, max_violations=5):
    """turn the judged failures of one model into known findings / violations"""
    J = r["judged"]
    m = r["model"]
    res = r["res"]
    for lang in ("C", "Py"):
        fails = J.failures[lang]
        if not fails:
            continue
        first_by_cause = {}
        for what, classes, detail in fails:
            closure, cl_classes = _deps_closure(res, r["recs"], classes, r["init_refs"], True)
            ids, unknown = explain(lang, closure, r["upper"], classes is None, r["class_ids"], cl_classes)
            if ids and not unknown:
                ok = True
                for fid in sorted(ids):
                    text = "%s profile, model %s: %s%s" % (
                        "C" if lang == "C" else "Python", m["name"], what,
                        (" (expected %r, got %r)" % (detail["expected"], detail["got"])) if "expected" in detail else "")
                    if not ctx.known_finding(fid, text[:400]):
                        ok = False
                        unknown.append("finding %s is observed but not listed as known" % fid)
                    else:
                        counters["findings"][fid] = counters["findings"].get(fid, 0) + 1
                if ok:
                    continue
            key = (lang, tuple(sorted(unknown)) or what.split(" after ")[0])
            if key in first_by_cause:
                first_by_cause[key]["more"].append(what)
                continue
            first_by_cause[key] = {"what": what, "detail": detail, "unknown": unknown, "more": [], "classes": classes,
                                   "closure": closure}
        for key, v in first_by_cause.items():
            counters["violations"] += 1
            if counters["violations"] > max_violations:
                continue
            detail = v["detail"]
            lines = {}
            if "array" in detail:
                lines = {"C": code_lines(r["c"], detail["array"], detail["index"]), "Py": code_lines(r["py"], detail["array"], detail["index"])}
            other = "Py" if lang == "C" else "C"
            got_other = None
            if "array" in detail and r["runs"][other]["ok"]:
                try:
                    got_other = r["runs"][other]["phases"][detail["phase"]][detail["array"]][detail["index"]]
                except (KeyError, IndexError):
                    pass
            content = {
                "mode": "model", "name": m["name"], "meta": m["meta"], "voi": r["voi"], "profile": lang,
                "problem": v["what"], "why_not_a_known_finding": v["unknown"] or ["every equation the entry depends on is safe for this profile"],
                "more_entries_with_the_same_cause": v["more"][:10],
                "variable": detail.get("variable"), "units": detail.get("units"), "expected": detail.get("expected"),
                "got_" + lang: detail.get("got"), "got_" + other: got_other,
                "generated_code": lines,
                "equations_in_dependency_closure": [{"component": q["comp"], "kind": q["kind"], "safe": q["safe"], "C": q["gen"]["C"], "Py": q["gen"]["Py"]}
                                                    for q in v["closure"]][:12],
                "run_error": {"error": r["runs"][lang]["error"], "compile_stderr": r["runs"][lang]["compile_stderr"][-1500:],
                              "stderr": r["runs"][lang]["stderr"][-1500:]} if not r["runs"][lang]["ok"] else None,
                "driver": r["info"].get("eqs"), "cellml": m["xml"],
            }
            ctx.violation("C03 model %s, %s profile: %s%s" % (
                m["name"], "C" if lang == "C" else "Python", v["what"],
                (": expected %r, got %r" % (detail["expected"], detail["got"])) if "expected" in detail else ""),
                "model_%s_%s_%d.json" % (m["name"], lang, counters["violations"]), content)
    if J.cross and not J.failures["C"] and not J.failures["Py"]:
        # both agree with the reference within tolerance yet differ from each other beyond it, or the reference is silent
        counters["violations"] += 1
        if counters["violations"] <= max_violations:
            ctx.violation("C03 model %s: the C and the Python profile disagree: %s" % (m["name"], J.cross[0]),
                          "model_%s_cross.json" % m["name"],
                          {"mode": "model", "name": m["name"], "meta": m["meta"], "voi": r["voi"], "problem": J.cross[:10], "cellml": m["xml"]})


# --------------------------------------------------------------------------- the layer
def model_layer(ctx, build, n_models=None):
    t0 = time.time()
    quick = ctx.quick()
    n = n_models if n_models is not None else (40 if quick else 1000)
    workdir = os.path.join(ctx.workdir, "models")
    shutil.rmtree(workdir, ignore_errors=True)
    os.makedirs(workdir, exist_ok=True)
    drv = _private_copy(vf.compile_driver(build, os.path.join(vf.ROOT, "harness/c03_model_driver.cpp")), workdir)
    mdl = _private_copy(vf.ocaml_driver("gen"), workdir)
    seeds = [ctx.rng.getrandbits(48) for _ in range(n)]
    gen = generate_models(seeds, mdl, workdir, sorted(ctx.known))
    gen_failed = [g for g in gen if "error" in g]
    models = [{"name": name, "xml": xml, "meta": {"voi": 1.5 if name in ("state_on_rhs", "control_safe", "bare_rate_on_rhs") else 0.0, "corpus": True, "expect": exp}}
              for name, xml, exp in CORPUS]
    models += [{"name": "m%04d" % i, "xml": g["xml"], "meta": g["meta"]} for i, g in enumerate(gen) if "error" not in g]
    t_gen = time.time() - t0
    ctx.log("models: %d generated in %.1fs (%d generator failures) + %d hand-written" % (len(gen) - len(gen_failed), t_gen, len(gen_failed), len(CORPUS)))

    rs = process(ctx, build, drv, mdl, models, workdir, "mdl")
    counters = {"violations": 0, "findings": {}}
    order_mdl = _private_copy(vf.ocaml_driver("order"), workdir)
    order_stats = order_tie(ctx, rs, order_mdl, workdir, counters)
    hist = {"generated": len(gen) - len(gen_failed), "hand_written": len(CORPUS), "generator_failures": len(gen_failed),
            "rejected": 0, "crashed": 0, "reference_failed": 0, "types": {}, "components": {}, "scaled_connections": {},
            "equations": {}, "states": {}, "nla_models": 0, "unsafe_models_by_design": 0, "planted": {}, "ops": {},
            "models_with_unsafe_equation": {"C": 0, "Py": 0}, "unsafe_equations": {"C": 0, "Py": 0}, "equations_total": 0,
            "variable_types": {}, "analyser_warnings_models": 0, "compared_values": 0, "failing_models": {"C": 0, "Py": 0},
            "scaled_reference_positions": {k: 0 for k in G.POSITION_KINDS}, "scaled_position_requests_not_met": {},
            "nla_systems_probed": 0, "nla_not_covered": 0, "computed_constants_late": 0, "primary_prediction_mismatches": 0, "rejected_samples": []}
    distinct = set()
    sample = None
    for r in rs:
        m = r["model"]
        meta = m["meta"]
        if r["status"] == "rejected":
            hist["rejected"] += 1
            if len(hist["rejected_samples"]) < 5:
                hist["rejected_samples"].append("%s: %s" % (m["name"], r["info"]["line"][:300]))
            continue
        if r["status"] == "crashed":
            hist["crashed"] += 1
            ctx.notes.append("model %s: pipeline driver reported %s (kept at %s)" % (m["name"], r["info"]["line"][:80], r["path"]))
            continue
        if r["status"] == "reference_failed":
            hist["reference_failed"] += 1
            ctx.notes.append("model %s: reference evaluation failed: %s" % (m["name"], r.get("error")))
            continue
        info, J = r["info"], r["judged"]
        hist["types"][info["type"]] = hist["types"].get(info["type"], 0) + 1
        for rec in info["states"] + info["variables"]:
            hist["variable_types"][rec["type"]] = hist["variable_types"].get(rec["type"], 0) + 1
        hist["analyser_warnings_models"] += info["warnings"] > 0
        if not meta.get("corpus"):
            for key, name in (("components", "components"), ("scaled_connections", "scaled_connections"), ("equations", "equations"), ("states", "states")):
                hist[key][str(meta[name])] = hist[key].get(str(meta[name]), 0) + 1
            hist["nla_models"] += meta["nla"] > 0
            hist["unsafe_models_by_design"] += bool(meta["unsafe"])
            for p in meta["planted"]:
                hist["planted"][p] = hist["planted"].get(p, 0) + 1
            for op, cnt in meta["ops"].items():
                hist["ops"][op] = hist["ops"].get(op, 0) + cnt
            for kind, cnt in G.scaled_positions(r["desc"], r["res"], r["prim"]).items():
                hist["scaled_reference_positions"][kind] = hist["scaled_reference_positions"].get(kind, 0) + cnt
            for kind in meta.get("positions_requested", []):
                if kind not in meta.get("positions_boosted", {}):
                    hist["scaled_position_requests_not_met"][kind] = hist["scaled_position_requests_not_met"].get(kind, 0) + 1
            if meta["nested_equations"] >= 1:
                distinct.add(hashlib.sha256(m["xml"].encode()).hexdigest())
            if sample is None and meta["equations"] <= 4 and meta["components"] <= 2 and not meta["unsafe"]:
                sample = m["xml"]
            pred = G.predicted_primaries(r["desc"], r["res"])
            hist["primary_prediction_mismatches"] += sum(1 for k, v in r["prim"].items() if tuple(pred[k]) != tuple(v))
        hist["equations_total"] += len(r["recs"])
        for lang in ("C", "Py"):
            bad = [q for q in r["recs"] if not q["safe"][lang] or q["state_on_rhs"] or q["lhs_unscaled"] or q["bare_rate"] or q["rate_order"]]
            hist["unsafe_equations"][lang] += len(bad)
            hist["models_with_unsafe_equation"][lang] += bool(bad) or bool(r["upper"]) or bool(r["class_ids"])
            hist["failing_models"][lang] += bool(J.failures[lang])
        hist["compared_values"] += J.compared
        if r["nla_cover"] is True:
            hist["nla_systems_probed"] += len(r["nla_expected"])
        elif r["nla_cover"] is False:
            hist["nla_not_covered"] += 1
            ctx.notes.append("model %s: NLA objective functions not covered (layout could not be mapped to reference values)" % m["name"])
        for note in J.notes:
            ctx.notes.append("model %s: %s" % (m["name"], note))
        hist["computed_constants_late"] += len(J.late)
        if J.reference_errors:
            ctx.notes.append("model %s: %d entries without a reference value" % (m["name"], J.reference_errors))
        report(ctx, r, counters)
        if meta.get("corpus") and meta.get("expect") is None and (J.failures["C"] or J.failures["Py"]):
            pass        # already reported by report(): a control model has no unsafe equation
    # disk: keep the files of failing models only
    for r in rs:
        if r["status"] == "ok" and not r["judged"].failures["C"] and not r["judged"].failures["Py"] and not r["judged"].cross:
            base = r["path"][:-len(".cellml")]
            shutil.rmtree(base + ".cdir", ignore_errors=True)
            shutil.rmtree(base + ".pydir", ignore_errors=True)
            for ext in (".cellml", ".cellml.c", ".cellml.h", ".cellml.py", ".cellml.dump"):
                try:
                    os.remove(base + ext)
                except OSError:
                    pass
    zero = [k for k in G.POSITION_KINDS if not hist["scaled_reference_positions"].get(k)]
    if zero:
        ctx.notes.append("no reference to a scaled variable was generated at position kind(s): %s" % ", ".join(zero))
    n_scale, n_scaled = scaling_tie(ctx, rs, mdl, workdir, counters)
    hist["scaling_tie"] = {"equations_compared": n_scale, "with_a_scaled_reference": n_scaled}
    hist["emission_order_tie"] = order_stats
    hist["findings_observed"] = counters["findings"]
    hist["violations"] = counters["violations"]
    hist["rejected_fraction"] = round(hist["rejected"] / max(1, len(models)), 4)
    hist["ops"] = dict(sorted(hist["ops"].items(), key=lambda kv: -kv[1]))
    ctx.cov["evaluations"] += hist["compared_values"]
    ctx.cov["distinct_nontrivial"] += len(distinct)
    ctx.cov.setdefault("input_distribution", {})["models"] = hist
    ctx.cov["rule"] = (ctx.cov.get("rule", "") + " whole-model layer: seeded valid CellML 2.0 models (2-4 connected components, scaled units, "
                       "constants / computed constants / algebraic variables / ODE states / rare NLA systems, right-hand sides over the whole "
                       "MathML operator set) through Parser-Validator-Analyser-Generator, C compiled and run, Python executed, every array "
                       "entry compared with an independent evaluator; non-trivial = distinct model text with at least one equation whose "
                       "right-hand side nests an operator in an operator.")
    if sample:
        ctx.cov["samples"] += [sample]
    ctx.cov["traces_validated_against_impl"] = ctx.cov.get("traces_validated_against_impl", 0) + hist["compared_values"]
    ctx.assumptions += [
        "whole-model layer: the reference evaluator (gen/matheval.py) is the oracle for MathML semantics and unit scaling "
        "(value of a variable = class quantity / multiplier of its units; multiplier * (10^prefix * ref)^exponent); unit children "
        "with both a prefix and an exponent other than 1 only occur in models that plant C03-prefix-with-exponent-scaling",
        "whole-model layer: references to variables in compatible-but-scaled units are generated at every syntactic position "
        "(coverage.input_distribution.models.scaled_reference_positions counts them per position kind, measured on the final model "
        "text with the primaries the analyser really chose); inside exponents, degrees and logarithm bases they use the dimensionless "
        "family (percent, permille, dozen) in equations over that family only, because Analyser::analyseEquationUnits dereferences a "
        "null AST child when an exponent's value is unknown and a later operand is not dimensionless",
        "whole-model layer: cc -O0 and CPython with the platform libm; comparison at relative 1e-9 (1e-6 for entries that depend on an NLA "
        "solve), on models conditioned so that 1e-12 input noise moves no output by more than 1e-10",
        "whole-model layer: the NLA solver supplied to the generated code is a damped Newton iteration written for this check (same "
        "algorithm in C and Python); the reference solves the same systems with its own Newton iteration from the same initial guesses",
        "whole-model layer: arrays are examined at one evaluation point per model (initial states, one non-zero voi)",
    ]
    if gen_failed:
        ctx.notes.append("generator failures: %s" % "; ".join(g["error"][:120] for g in gen_failed[:3]))
    ctx.log("models: %d ok, %d rejected, %d crashed; %d values compared; unsafe-by-design %d; failing C %d / Py %d; findings %s; violations %d; %.1fs" % (
        sum(1 for r in rs if r["status"] == "ok"), hist["rejected"], hist["crashed"], hist["compared_values"], hist["unsafe_models_by_design"],
        hist["failing_models"]["C"], hist["failing_models"]["Py"], counters["findings"], counters["violations"], time.time() - t0))
    return rs


def _private_copy(exe, workdir):
    """the build cache (.build, .work/ocaml) is shared with concurrently running checks and evicts old entries:
    run from a copy of our own"""
    dst = os.path.join(workdir, "bin_" + os.path.basename(os.path.dirname(exe)) + "_" + os.path.basename(exe))
    shutil.copy2(exe, dst)
    return dst


def replay_model(ctx, build, path):
    """re-run one replay file of this layer: prints every entry expected / C / Python"""
    r = json.load(open(path))
    workdir = os.path.join(ctx.workdir, "replay_models")
    shutil.rmtree(workdir, ignore_errors=True)
    os.makedirs(workdir, exist_ok=True)
    drv = _private_copy(vf.compile_driver(build, os.path.join(vf.ROOT, "harness/c03_model_driver.cpp")), workdir)
    mdl = _private_copy(vf.ocaml_driver("gen"), workdir)
    model = {"name": re.sub(r"\W", "_", r.get("name", "replay")), "xml": r["cellml"], "meta": dict(r.get("meta") or {}, voi=r.get("voi", 0.0))}
    rs = process(ctx, build, drv, mdl, [model], workdir, "replay")
    x = rs[0]
    print("driver :", x["info"].get("line") or {k: x["info"][k] for k in ("type", "voi", "eqs")})
    if x["status"] != "ok":
        print("status :", x["status"], x.get("error"))
        return x
    print("voi    :", x["voi"], "in units of", x["info"]["voi"])
    for lang in ("C", "Py"):
        run = x["runs"][lang]
        print("%-3s run: ok=%s error=%s %s" % (lang, run["ok"], run["error"], (run["compile_stderr"] + run["stderr"]).strip()[-300:] if not run["ok"] else ""))
    res = x["res"]
    for arr, recs in (("states", x["info"]["states"]), ("rates", x["info"]["states"]), ("variables", x["info"]["variables"])):
        for rec in recs:
            try:
                exp = res.rate_value(rec["var"], x["info"]["voi"]) if arr == "rates" else res.var_value(*rec["var"])
            except Exception as ex:
                exp = "n/a (%s)" % ex
            got = {}
            for lang in ("C", "Py"):
                try:
                    got[lang] = x["runs"][lang]["phases"]["vars"][arr][rec["index"]]
                except (KeyError, IndexError):
                    got[lang] = None
            flag = "" if all(isinstance(exp, float) and g is not None and close(g, exp, NLA_REL, 1e-9) for g in got.values()) else "   <-- differs"
            print("%-9s[%d] %-18s %-28s expected %-24r C %-24r Py %r%s" % (arr, rec["index"], rec["type"], "%s.%s (%s)" % (rec["var"] + (rec["units"],)), exp, got["C"], got["Py"], flag))
    for q in x["recs"]:
        if not (q["safe"]["C"] and q["safe"]["Py"]) or q["state_on_rhs"] or q["lhs_unscaled"] or q["bare_rate"] or q["rate_order"]:
            print("unsafe equation in %s: safe=%s ids=%s state_on_rhs=%s lhs_unscaled=%s bare_rate=%s rate_order=%s\n   C : %s\n   Py: %s" % (
                q["comp"], q["safe"], q["ids"], q["state_on_rhs"], q["lhs_unscaled"], q["bare_rate"], q["rate_order"], q["gen"]["C"], q["gen"]["Py"]))
    if x["class_ids"]:
        print("variable-level shapes:", {"%s.%s" % tuple(x["res"].classes[k][0]): sorted(v) for k, v in x["class_ids"].items()})
    for lang in ("C", "Py"):
        for what, classes, detail in x["judged"].failures[lang]:
            print("FAIL %s: %s %s" % (lang, what, {k: detail[k] for k in ("expected", "got") if k in detail}))
    return x
