"""C15 — issue reporting is coherent across all services.

proofs : Properties_C15.v — the logger invariant for every history of service operations (incl. the importer's
         removeError loops), the exact condition under which removeError is safe, the rule-table / issue-site /
         item-holder theorems over tables regenerated from /repo/src on this run.
tie    : (1) every ReferenceRule value through the real Issue::referenceHeading()/url() vs the regenerated table;
         (2) every AnyCellmlElementImpl setter x argument through the real accessors vs the holder model;
         (3) random add / removeAllIssues / removeError sequences on a real LoggerImpl vs the extracted model;
         (4) the primitive logger operations that every service performs are recorded at link level (--wrap) and
             replayed through the model: same issue list, same index vectors, same accessor results.
search : the property's own predicate on the real loggers after every Parser / Validator / Analyser / Printer /
         Annotator / Importer call (generated valid, invalid, garbage documents, files of tests/resources,
         generated import graphs with parser errors, 1.x files, missing files / entities, cycles).
"""
import hashlib
import json
import os
import random
import re
import subprocess

import vf

WRAP = ["_ZN9libcellml6Logger10LoggerImpl8addIssueERKSt10shared_ptrINS_5IssueEE",
        "_ZN9libcellml6Logger10LoggerImpl15removeAllIssuesEv",
        "_ZN9libcellml6Logger10LoggerImpl11removeErrorEm"]
DRIVER_FLAGS = ["-fno-access-control"] + ["-Wl,--wrap=" + s for s in WRAP]

NS2 = "http://www.cellml.org/cellml/2.0#"
NS11 = "http://www.cellml.org/cellml/1.1#"
NS10 = "http://www.cellml.org/cellml/1.0#"
MATHNS = "http://www.w3.org/1998/Math/MathML"
XLINK = "http://www.w3.org/1999/xlink"


# ----------------------------------------------------------------------------------------------- table facts

def table_facts():
    """rule names / count and the names carried by the rows, from the file regenerated on this run"""
    txt = open(os.path.join(vf.COQ, "gen", "RuleTable.v")).read()
    m = re.search(r"Definition rule_names : list string := \[(.*?)\]\.", txt, flags=re.S)
    names = re.findall(r'"([A-Z0-9_]*)"', m.group(1))
    count = int(re.search(r"Definition rule_count : nat := (\d+)\.", txt).group(1))
    keys = [int(x) for x in re.findall(r"r_rule := (\d+);", txt)]
    assert count == len(names)
    return names, count, set(keys)


# ----------------------------------------------------------------------------------------------- documents

def ident(rng, k):
    return rng.choice(["a", "b", "c", "x", "y", "z", "v", "w", "k", "q"]) + str(k)


def gen_math(rng, vars_):
    def ci(v):
        return "<ci>%s</ci>" % v
    def cn():
        return '<cn cellml:units="%s">%s</cn>' % (rng.choice(["dimensionless", "second"]), rng.choice(["1", "2.5", "3e2", "0"]))
    eqs = []
    for _ in range(rng.choice([0, 1, 1, 2, 3])):
        if not vars_:
            break
        lhs = rng.choice(vars_)
        k = rng.random()
        if k < 0.3:
            rhs = cn()
        elif k < 0.55 and len(vars_) > 1:
            rhs = "<apply><plus/>%s%s</apply>" % (ci(rng.choice(vars_)), cn())
        elif k < 0.8 and len(vars_) > 1:
            t = rng.choice(vars_)
            eqs.append("<apply><eq/><apply><diff/><bvar>%s</bvar>%s</apply>%s</apply>" % (ci(t), ci(lhs), rng.choice([cn(), ci(rng.choice(vars_))])))
            continue
        else:
            rhs = "<apply><times/>%s%s</apply>" % (ci(rng.choice(vars_)), ci(rng.choice(vars_)))
        eqs.append("<apply><eq/>%s%s</apply>" % (ci(lhs), rhs))
    if not eqs:
        return ""
    return '<math xmlns="%s" xmlns:cellml="%s">%s</math>' % (MATHNS, NS2, "".join(eqs))


def gen_model(rng, with_ids=True, ns=NS2):
    """a mostly valid CellML 2.0 document (no unit cycles: those crash elsewhere and belong to C01)"""
    nid = [0]

    def idattr(p=0.35):
        if with_ids and rng.random() < p:
            nid[0] += 1
            # sometimes a duplicate identifier
            return ' id="%s"' % ("dup" if rng.random() < 0.12 else "i%d" % nid[0])
        return ""
    units = []
    for k in range(rng.choice([0, 1, 2, 3])):
        base = rng.choice(["metre", "second", "kilogram", "ampere"] + [u[0] for u in units])   # earlier units only: no cycles
        pre = rng.choice(["", "", ' prefix="milli"', ' prefix="3"', ' exponent="2"', ' multiplier="1.5"'])
        units.append(("u%d" % k, '<units name="u%d"%s><unit units="%s"%s%s/></units>' % (k, idattr(), base, pre, idattr(0.2))))
    unames = ["second", "dimensionless", "metre"] + [u[0] for u in units]
    comps = []
    for k in range(rng.choice([1, 1, 2, 3, 4])):
        vs = []
        for j in range(rng.choice([0, 1, 2, 3, 4])):
            vs.append(("v%d_%d" % (k, j), rng.choice(unames)))
        vx = "".join('<variable name="%s" units="%s"%s%s%s/>' % (
            n, u, rng.choice(["", "", ' initial_value="1"', ' initial_value="0.5"']),
            rng.choice(["", ' interface="public"', ' interface="public_and_private"']), idattr()) for n, u in vs)
        resets = ""
        if len(vs) >= 2 and rng.random() < 0.25:
            resets = ('<reset variable="%s" test_variable="%s" order="%d"%s><test_value%s><math xmlns="%s" xmlns:cellml="%s">'
                      '<cn cellml:units="second">1</cn></math></test_value><reset_value%s><math xmlns="%s" xmlns:cellml="%s">'
                      '<cn cellml:units="second">2</cn></math></reset_value></reset>') % (
                vs[0][0], vs[1][0], rng.randrange(1, 4), idattr(), idattr(), MATHNS, NS2, idattr(), MATHNS, NS2)
        comps.append(("c%d" % k, vs, '<component name="c%d"%s>%s%s%s</component>' % (
            k, idattr(), vx, gen_math(rng, [n for n, _ in vs]), resets)))
    conns = ""
    if len(comps) >= 2 and rng.random() < 0.5:
        a, b = comps[0], comps[1]
        if a[1] and b[1]:
            conns = '<connection component_1="%s" component_2="%s"%s><map_variables variable_1="%s" variable_2="%s"%s/></connection>' % (
                a[0], b[0], idattr(), a[1][0][0], b[1][0][0], idattr())
    enc = ""
    if len(comps) >= 2 and rng.random() < 0.4:
        enc = '<encapsulation%s><component_ref component="%s"%s><component_ref component="%s"%s/></component_ref></encapsulation>' % (
            idattr(), comps[0][0], idattr(), comps[1][0], idattr())
    return '<?xml version="1.0" encoding="UTF-8"?>\n<model xmlns="%s" name="m"%s>%s%s%s%s</model>\n' % (
        ns, idattr(), "".join(u[1] for u in units), "".join(c[2] for c in comps), conns, enc)


MUTATIONS = [
    (r' name="([a-z0-9_]+)"', r' name="1\1"'), (r' name="([a-z0-9_]+)"', r''), (r' units="[a-z0-9_]+"', r' units="nonesuch"'),
    (r' units="[a-z0-9_]+"', r''), (r'<variable ', r'<variable bogus="1" '), (r'<component ', r'<component extra="x" '),
    (r'<units ', r'<units foo="bar" '), (r'<model ', r'<model other="1" '), (r'<unit ', r'<unit exponent="abc" '),
    (r'<ci>([a-z0-9_]+)</ci>', r'<ci>nope</ci>'), (r'<eq/>', r'<equals/>'), (r'<apply>', r'<apply><bogus/>'),
    (r'order="\d+"', r'order="x"'), (r'</component>', r'<thing/></component>'), (r'</model>', r'<stray/></model>'),
    (r' variable_1="[a-z0-9_]+"', r' variable_1="ghost"'), (r' component_1="[a-z0-9_]+"', r' component_1="ghost"'),
    (r' initial_value="[0-9.]+"', r' initial_value="abc"'), (r' interface="[a-z_]+"', r' interface="sideways"'),
    (r'<cn cellml:units="[a-z]+">', r'<cn>'), (r'<cn cellml:units="[a-z]+">', r'<cn cellml:units="ghostunits">'),
    (r'<component name="c1"', r'<component name="c0"'), (r'<units name="u1"', r'<units name="second"'),
    (r'<variable name="(v\d+_)1"', r'<variable name="\g<1>0"'), (r' prefix="milli"', r' prefix="wrong"'),
    (r'<test_value', r'<test_value bad="1"'), (r'<reset ', r'<reset bogus="2" '), (r'<encapsulation', r'<encapsulation nope="1"'),
    (r'<component_ref component="[a-z0-9]+"', r'<component_ref component="ghost"'), (r'<map_variables ', r'<map_variables q="1" '),
    (r'<unit ', r'<unit multiplier="abc" '), (r'<cn ', r'<cn base="16" '), (r' component_2="[a-z0-9_]+"', r' component_2="c0"'),
    (r'<eq/>', r'<plus/>'), (r' initial_value="[0-9.]+"', r' initial_value="v0_0"'),
    (r'<bvar>(<ci>[a-z0-9_]+</ci>)</bvar>', r'<bvar>\1<degree><cn cellml:units="dimensionless">2</cn></degree></bvar>'), (r'<cn ', r'<cn type="e-notation" '), (r' order="\d+"', r''), (r'<variable name="(v\d+_\d)"', r'<variable name="\1" name2="x"'),
]


def mutate(rng, doc, n):
    for _ in range(n):
        pat, rep = rng.choice(MUTATIONS)
        ms = list(re.finditer(pat, doc))
        if not ms:
            continue
        m = rng.choice(ms)
        doc = doc[:m.start()] + m.expand(rep) + doc[m.end():]
    return doc


def has_units_cycle(doc):
    """units definitions that reference themselves directly or indirectly: several entry points of the library
    recurse without a visited set on such models (defect class owned by C01 / C07), so a crash there is not C15's"""
    graph = {}
    for m in re.finditer(r'<units\b[^>]*\bname="([^"]*)"[^>]*>(.*?)</units>', doc, flags=re.S):
        graph.setdefault(m.group(1), set()).update(re.findall(r'<unit\b[^>]*\bunits="([^"]*)"', m.group(2)))
    state = {}

    def visit(u):
        if state.get(u) == 1:
            return True
        if state.get(u) == 2 or u not in graph:
            return False
        state[u] = 1
        r = any(visit(v) for v in graph[u])
        state[u] = 2
        return r
    return any(visit(u) for u in list(graph))


def garbage(rng, valid):
    k = rng.randrange(9)
    if k == 0:
        return ""
    if k == 1:
        return "".join(chr(rng.randrange(32, 127)) for _ in range(rng.randrange(1, 80)))
    if k == 2:
        return valid[:rng.randrange(1, len(valid))]
    if k == 3:
        return '<?xml version="1.0"?><notmodel xmlns="%s"/>' % NS2
    if k == 4:
        return '<?xml version="1.0"?><model name="m"/>'
    if k == 5:
        return valid.replace(NS2, NS11)
    if k == 6:
        return valid.replace(NS2, NS10)
    if k == 7:
        return valid.replace("</model>", "</modle>")
    return bytes(rng.randrange(256) for _ in range(rng.randrange(1, 60))).decode("latin-1")


# ----------------------------------------------------------------------------------------------- injection matrix

CMETA = "http://www.cellml.org/metadata/1.0#"
NSV = {"2.0": NS2, "1.0": NS10, "1.1": NS11}
KINDS = ["model", "import", "import_units", "import_component", "units", "unit", "component", "variable", "reset", "test_value",
         "reset_value", "encapsulation", "component_ref", "component_ref_child", "connection", "map_components", "map_variables", "group",
         "relationship_ref", "math"]
INJECTIONS = ["stray_attr", "stray_attr_ns", "stray_child", "stray_child_ns", "stray_text", "missing_required", "duplicate"]
REQUIRED = {"model": ["name"], "import": ["xlink:href"], "import_units": ["units_ref", "name"], "import_component": ["component_ref", "name"],
            "units": ["name"], "unit": ["units"], "component": ["name"], "variable": ["name", "units"],
            "reset": ["variable", "test_variable", "order"], "component_ref": ["component"], "component_ref_child": ["component"], "connection": ["component_1", "component_2"],
            "map_components": ["component_1", "component_2"], "map_variables": ["variable_1", "variable_2"], "relationship_ref": ["relationship"]}


def N(tag, attrs=None, kids=None, kind=None, text=None):
    return {"tag": tag, "attrs": list(attrs or []), "kids": list(kids or []), "kind": kind, "text": text}


def base_tree(version, want):
    """a document of the given CellML version that contains every element kind legal in it, plus the element of kind
    [want] when that kind does not belong to the version (so that every kind can be hit in every version)"""
    ns = NSV[version]
    v2 = version == "2.0"

    def math(kid):
        return N("math", [("xmlns", MATHNS)], [kid], "math")

    def cn(val):
        return N("cn", [("cellml:units", "second")], [], None, val)
    kids = []
    if version != "1.0" or want in ("import", "import_units", "import_component"):
        kids.append(N("import", [("xlink:href", "lib_that_is_not_there.cellml")],
                      [N("units", [("units_ref", "U"), ("name", "iu")], [], "import_units"),
                       N("component", [("component_ref", "C"), ("name", "ic")], [], "import_component")], "import"))
    kids.append(N("units", [("name", "u1")], [N("unit", [("units", "metre"), ("prefix", "milli")], [], "unit")], "units"))
    iface = (lambda d: ("interface", "public")) if v2 else (lambda d: ("public_interface", d))
    c1 = [N("variable", [("name", "a"), ("units", "u1"), iface("out"), ("initial_value", "1")], [], "variable"),
          N("variable", [("name", "b"), ("units", "second"), iface("out")], [], None)]
    if v2 or want in ("reset", "test_value", "reset_value"):
        c1.append(N("reset", [("variable", "a"), ("test_variable", "b"), ("order", "1")],
                    [N("test_value", [], [math(cn("1"))], "test_value"), N("reset_value", [], [math(cn("2"))], "reset_value")], "reset"))
    c1.append(math(N("apply", [], [N("eq"), N("ci", text="b"), cn("3")])))
    kids.append(N("component", [("name", "c1")], c1, "component"))
    kids.append(N("component", [("name", "c2")], [N("variable", [("name", "a2"), ("units", "u1"), iface("in")], [], None)], None))
    cref = N("component_ref", [("component", "c1")], [N("component_ref", [("component", "c2")], [], "component_ref_child")], "component_ref")
    if v2 or want == "encapsulation":
        kids.append(N("encapsulation", [], [cref], "encapsulation"))
        cref = N("component_ref", [("component", "c1")], [N("component_ref", [("component", "c2")], [], "component_ref_child")], None)
    if not v2 or want in ("group", "relationship_ref"):
        kids.append(N("group", [], [N("relationship_ref", [("relationship", "encapsulation")], [], "relationship_ref"), cref], "group"))
    ck = []
    if not v2 or want == "map_components":
        ck.append(N("map_components", [("component_1", "c1"), ("component_2", "c2")], [], "map_components"))
    ck.append(N("map_variables", [("variable_1", "a"), ("variable_2", "a2")], [], "map_variables"))
    kids.append(N("connection", [("component_1", "c1"), ("component_2", "c2")] if v2 else [], ck, "connection"))
    return N("model", [("xmlns", ns), ("xmlns:cellml", ns), ("xmlns:xlink", XLINK), ("xmlns:foo", "http://example.org/foo"),
                       ("name", "m")], kids, "model")


def find_kind(node, kind, parent=None):
    if node["kind"] == kind:
        return node, parent
    for k in node["kids"]:
        r = find_kind(k, kind, node)
        if r:
            return r
    return None


def xml_of(node):
    def esc(v):
        return v.replace("&", "&amp;").replace("<", "&lt;").replace('"', "&quot;")
    a = "".join(' %s="%s"' % (k, esc(v)) for k, v in node["attrs"])
    inner = (esc(node["text"]) if node["text"] else "") + "".join(xml_of(k) for k in node["kids"])
    return "<%s%s>%s</%s>" % (node["tag"], a, inner, node["tag"]) if inner else "<%s%s/>" % (node["tag"], a)


def _regular(node):
    """indices of the attributes that are not namespace declarations"""
    return [i for i, (k, _) in enumerate(node["attrs"]) if not k.startswith("xmlns")]


def _add_attr(node, attr, pos):
    reg = _regular(node)
    if pos == "last":
        node["attrs"].append(attr)
    elif pos == "first":
        node["attrs"].insert(reg[0] if reg else len(node["attrs"]), attr)
    elif pos == "between":
        if len(reg) < 2:
            return False
        node["attrs"].insert(reg[1], attr)
    return True


def _apply(version, kind, node, parent, injection, variant):
    """one injection on the target node; False when the combination does not exist"""
    import copy
    import itertools
    name, _, pos = injection.partition("@")
    if name == "stray_attr":
        return _add_attr(node, ("bogus", "1"), pos or "last")
    if name == "stray_attr_ns":
        return _add_attr(node, ("foo:bogus", "1"), pos or "last")
    if name in ("stray_child", "stray_child_ns"):
        kid = N("stray" if name == "stray_child" else "foo:stray")
        if (pos or "first") == "first":
            node["kids"].insert(0, kid)
        else:
            if not node["kids"]:
                return False          # same document as 'first'
            node["kids"].append(kid)
        return True
    if name == "stray_text":
        node["text"] = "stray text"
        return True
    req = REQUIRED.get(kind, [])
    if kind == "connection" and version != "2.0":
        req = []
    if name == "missing_required":
        if variant < len(req):
            node["attrs"] = [(k, v) for k, v in node["attrs"] if k != req[variant]]
        elif variant == len(req) and node["kids"]:
            node["kids"] = []          # required children missing
        else:
            return False
        return True
    if name == "dangling":             # a required attribute that names something which does not exist / is not legal
        if variant >= len(req):
            return False
        node["attrs"] = [(k, ("ghost_ref" if k == req[variant] else v)) for k, v in node["attrs"]]
        return True
    if name == "attr_order":           # the element's own attributes in another order
        reg = _regular(node)
        if len(reg) < 2:
            return False
        perms = list(itertools.permutations(reg))[1:]
        if len(reg) > 3:               # 4 attributes: reverse and the three rotations
            perms = [tuple(reversed(reg))] + [tuple(reg[i:] + reg[:i]) for i in range(1, len(reg))]
        if variant >= len(perms):
            return False
        vals = [node["attrs"][i] for i in perms[variant]]
        for slot, val in zip(reg, vals):
            node["attrs"][slot] = val
        return True
    if name == "kids_reversed":
        if len(node["kids"]) < 2:
            return False
        node["kids"].reverse()
        return True
    if name == "kids_rotated":
        if len(node["kids"]) < 3:
            return False
        node["kids"] = node["kids"][1:] + node["kids"][:1]
        return True
    if name == "self_nested":          # the element inside itself (component_ref of the same component, units in units, ...)
        if parent is None:
            return False
        node["kids"].append(copy.deepcopy(node))
        return True
    if name == "duplicate":
        if parent is None:
            node["kids"].append(copy.deepcopy(node["kids"][1]))   # model: duplicate a child (two units with one name)
        else:
            parent["kids"].insert(parent["kids"].index(node) + 1, copy.deepcopy(node))
        return True
    raise ValueError(injection)


def inject(version, kind, injection, variant=0):
    """-> document text, or None when the combination does not exist (e.g. no second required attribute).
    injection = name[@position], or two of them joined by '+' (the variant goes to the second)"""
    root = base_tree(version, kind)
    hit = find_kind(root, kind)
    if not hit:
        return None
    node, parent = hit
    parts = injection.split("+")
    for i, part in enumerate(parts):
        if not _apply(version, kind, node, parent, part, variant if i == len(parts) - 1 else 0):
            return None
    return '<?xml version="1.0" encoding="UTF-8"?>\n' + xml_of(root) + "\n"


# the ORDER dimension: where a stray attribute / child sits relative to the regular ones, the regular attributes and children
# in other orders, and stray attributes combined with a missing / dangling required attribute (loaders visit attributes and
# children sequentially, so what they know when they meet the stray one depends on what came before)
ORDER_INJECTIONS = ["stray_attr@first", "stray_attr@between", "stray_attr_ns@first", "stray_attr_ns@between",
                    "stray_child@last", "stray_child_ns@last", "attr_order", "kids_reversed", "kids_rotated", "self_nested", "dangling",
                    "stray_attr@first+missing_required", "stray_attr@last+missing_required", "stray_attr_ns@first+missing_required",
                    "stray_attr@first+dangling", "stray_attr@last+dangling", "stray_attr@first+kids_reversed",
                    "stray_child@first+kids_reversed"]
VARIANTS = {"missing_required": 4, "dangling": 3, "attr_order": 5}


def injection_matrix(order=False):
    """base matrix (order=False) or its ORDER extension (order=True): [(name, document)] without duplicates"""
    out = []
    seen = set()
    for version in ("2.0", "1.0", "1.1"):
        for kind in KINDS:
            for inj in (ORDER_INJECTIONS if order else INJECTIONS):
                nv = VARIANTS.get(inj.split("+")[-1].split("@")[0], 1)
                for variant in range(nv):
                    d = inject(version, kind, inj, variant)
                    if d is not None and d not in seen:
                        seen.add(d)
                        out.append(("matrix%s:%s:%s:%s%s" % ("o" if order else "", version, kind, inj, (":%d" % variant) if nv > 1 else ""), d))
    return out


INPUT_CLASSES = ["valid", "invalid", "garbage", "empty", "componentless", "unitsonly", "null"]


def input_of(rng, cls):
    """one input of the given class for the instance re-use histories (None = null model / empty string)"""
    if cls == "null":
        return None
    if cls == "empty":
        return '<?xml version="1.0"?><model xmlns="%s"/>' % NS2
    if cls == "componentless":
        return '<?xml version="1.0"?><model xmlns="%s" name="nocomp" id="mid"/>' % NS2
    if cls == "unitsonly":
        return ('<?xml version="1.0"?><model xmlns="%s" name="uo"><units name="ua"><unit units="metre" prefix="kilo"/></units>'
                '<units name="ub"><unit units="ua" exponent="2"/><unit units="second" exponent="-1"/></units></model>' % NS2)
    base = gen_model(rng)
    if cls == "valid":
        return base
    if cls == "invalid":
        return mutate(rng, base, rng.choice([1, 2, 3]))
    return garbage(rng, base)


# ----------------------------------------------------------------------------------------------- import graphs

ERR_SNIPPETS = {
    # kind -> (where, text transformation) applied to a library file
    "model_attr": lambda d: d.replace("<model ", '<model bogus="1" ', 1),
    "units_related": lambda d: d.replace('<units name="U">', '<units name="U" bogus="1">', 1),
    "unit_related": lambda d: d.replace('<unit units="metre"', '<unit units="metre" exponent="abc"', 1),
    "units_other": lambda d: d.replace('<units name="Uother">', '<units name="Uother" bogus="1">', 1),
    "comp_related": lambda d: d.replace('<component name="C">', '<component name="C" bogus="1">', 1),
    "var_related": lambda d: d.replace('<variable name="cv"', '<variable name="cv" bogus="1"', 1),
    "comp_other": lambda d: d.replace('<component name="Cother">', '<component name="Cother" bogus="1">', 1),
    "var_other": lambda d: d.replace('<variable name="ov"', '<variable name="ov" bogus="1"', 1),
    "stray": lambda d: d.replace("</model>", "<stray/></model>", 1),
}


def lib_file(rng, ns, nerr, extra_imports=""):
    body = ('<units name="U"><unit units="metre" prefix="milli"/></units><units name="Uother"><unit units="second"/></units>'
            '%s<component name="C"><variable name="cv" units="U" interface="public"/></component>'
            '<component name="Cother"><variable name="ov" units="second"/></component>') % extra_imports
    d = '<?xml version="1.0" encoding="UTF-8"?>\n<model xmlns="%s" xmlns:xlink="%s" name="lib">%s</model>\n' % (ns, XLINK, body)
    kinds = []
    for _ in range(nerr):
        k = rng.choice(sorted(ERR_SNIPPETS))
        kinds.append(k)
        d = ERR_SNIPPETS[k](d)
    return d, kinds


def gen_import_case(rng, root, idx):
    """writes an import graph under root/g<idx>; returns (dir, main, strict, script, description)"""
    d = os.path.join(root, "g%d" % idx)
    os.makedirs(d, exist_ok=True)
    for f in os.listdir(d):
        os.remove(os.path.join(d, f))
    strict = rng.random() < 0.5
    nlib = rng.choice([1, 1, 2, 3])
    desc = {"strict": strict, "libs": []}
    imports = []
    for k in range(nlib):
        fname = "lib%d.cellml" % k
        kind = rng.choice(["ok", "ok", "errors", "errors", "errors", "missing", "xml", "v11", "v11_errors", "nested", "cycle", "empty"])
        nerr = 0
        kinds = []
        if kind == "missing":
            pass
        elif kind == "xml":
            open(os.path.join(d, fname), "w").write(lib_file(rng, NS2, rng.choice([0, 1, 2]))[0].replace("</model>", "</modle>"))
        elif kind == "empty":
            open(os.path.join(d, fname), "w").write("")
        elif kind in ("v11", "v11_errors"):
            nerr = 0 if kind == "v11" else rng.choice([1, 2, 3])
            txt, kinds = lib_file(rng, NS11, nerr)
            open(os.path.join(d, fname), "w").write(txt)
        elif kind == "nested":
            inner = "inner%d.cellml" % k
            ik = rng.choice(["ok", "errors", "missing"])
            if ik != "missing":
                itxt, _ = lib_file(rng, NS2, 0 if ik == "ok" else rng.choice([1, 2]))
                open(os.path.join(d, inner), "w").write(itxt)
            extra = ('<import xlink:href="%s"><units units_ref="U" name="Unested"/><component component_ref="C" name="Cnested"/></import>'
                     % inner)
            nerr = rng.choice([0, 1])
            txt, kinds = lib_file(rng, NS2, nerr, extra)
            txt = txt.replace('<component name="C"><variable name="cv" units="U"', '<component name="C"><variable name="cv" units="Unested"')
            open(os.path.join(d, fname), "w").write(txt)
        elif kind == "cycle":
            extra = '<import xlink:href="main.cellml"><component component_ref="top0" name="Cback"/></import>'
            txt, kinds = lib_file(rng, NS2, 0, extra)
            txt = txt.replace('<component name="C">', '<component name="C"><!--x-->').replace(
                "</model>", '<encapsulation><component_ref component="C"><component_ref component="Cback"/></component_ref></encapsulation></model>')
            open(os.path.join(d, fname), "w").write(txt)
        else:
            nerr = 0 if kind == "ok" else rng.choice([1, 2, 3])
            txt, kinds = lib_file(rng, NS2, nerr)
            open(os.path.join(d, fname), "w").write(txt)
        desc["libs"].append({"file": fname, "kind": kind, "errors": kinds})
        what = rng.choice(["units", "component", "both", "both", "missing_units", "missing_component"])
        items = ""
        if what in ("units", "both"):
            items += '<units units_ref="U" name="iu%d"/>' % k
        if what in ("component", "both"):
            items += '<component component_ref="C" name="top%d"/>' % k
        if what == "missing_units":
            items += '<units units_ref="Ughost" name="iu%d"/>' % k
        if what == "missing_component":
            items += '<component component_ref="Cghost" name="top%d"/>' % k
        desc["libs"][-1]["imports"] = what
        imports.append('<import xlink:href="%s">%s</import>' % (fname, items))
        if rng.random() < 0.25:   # a second import element for the same file (library cache)
            imports.append('<import xlink:href="%s"><units units_ref="Uother" name="iuo%d"/></import>' % (fname, k))
    local = ('<component name="local"><variable name="lv" units="second"/></component>' if rng.random() < 0.6 else "")
    main = '<?xml version="1.0" encoding="UTF-8"?>\n<model xmlns="%s" xmlns:xlink="%s" name="main">%s%s</model>\n' % (
        NS2, XLINK, "".join(imports), local)
    open(os.path.join(d, "main.cellml"), "w").write(main)
    script = rng.choice(["r", "rf", "rvf", "rrf", "rv", "nrf", "urf", "rcrf", "ruf", "rfn"])
    desc["script"] = script
    return d, "main.cellml", strict, script, desc


# ----------------------------------------------------------------------------------------------- running

def shard_run(drv, mode, lines, workdir, tag, nsh=None, timeout=1500):
    nsh = nsh or vf.NCPU
    nsh = max(1, min(nsh, len(lines)))
    procs = []
    for k in range(nsh):
        part = lines[k::nsh]
        p = os.path.join(workdir, "%s.%d.cases" % (tag, k))
        with open(p, "w") as f:
            f.write("".join(l + "\n" for l in part))
        of = open(p + ".out", "wb")   # to a file: a pipe would serialise the shards once its buffer is full
        procs.append((k, len(part), subprocess.Popen([drv, mode, p], stdout=of, stderr=subprocess.DEVNULL), of))
    out = [None] * len(lines)
    for k, n, pr, of in procs:
        try:
            pr.wait(timeout=timeout)
        except subprocess.TimeoutExpired:
            pr.kill()
        of.close()
        o = open(of.name, encoding="utf-8", errors="replace").read().split("\n")
        os.remove(of.name)
        for i in range(n):
            out[k + i * nsh] = o[i] if i < len(o) else "<missing>"
    return out


def parse_record(rec):
    """'svc.call k=v k=v ...' -> dict"""
    toks = rec.split(" ")
    d = {"name": toks[0]}
    for t in toks[1:]:
        if "=" in t:
            k, v = t.split("=", 1)
            d[k] = v
    d["svc"], _, d["call"] = d["name"].partition(".")
    i = rec.find(" lv=")
    d["state"] = rec[i + 1:] if i >= 0 else ""
    return d


KNOWN = {
    "C15-annotator-null-model-silent": lambda r: r["svc"] == "annotator" and r["call"].startswith("assignAllIds_nullmodel"),
    "C15-annotator-foreign-item-silent": lambda r: r["svc"] == "annotator" and r["call"] == "assignId_foreign",
    "C15-annotator-wrong-type-lookup-silent": lambda r: r["svc"] == "annotator" and r["call"].endswith("_wrongtype"),
}


class Eval:
    """evaluates the records of svc / imp output lines"""

    def __init__(self, ctx, drv):
        self.ctx = ctx
        self.drv = drv
        self.traces = {}         # trace string -> (state string, example)
        self.hist_service = {}
        self.hist_expl = {"ok": 0, "na": 0, "MISSING": 0}
        self.distinct = set()
        self.nontrivial = set()
        self.records = 0
        self.nviol = 0
        self.crashed = 0
        self.other_crashes = []
        self.math_items = 0
        self.math_unreachable = 0
        self.removals = 0
        self.samples = []
        self.samples_rem = []
        self.rules_seen = set()

    def line(self, case, out, replay_name, crash_known=None):
        ctx = self.ctx
        if out.startswith("CRASH") or out.startswith("TIMEOUT") or out.startswith("THROW") or out == "<missing>":
            # the call did not return: neither a result nor an issue list.  Only crash classes listed as findings are excused.
            self.crashed += 1
            if crash_known is not None and crash_known(out):
                return out
            where = self.last_call(case, replay_name)
            if where.startswith("importer.flattenModel after resolveImports=0"):
                # flattening a model whose imports could not be resolved: a crash there is a defect of the flattening
                # preconditions (C06 / C07), not of issue reporting; counted, not reported here
                self.other_crashes.append(case)
                return out
            self.violation("%s in %s: the service call did not return (no result, no issue list)" % (out, where), case,
                           out + " in " + where, replay_name)
            return out
        if out == "-":
            return None
        for rec in out.split(" ; "):
            r = parse_record(rec)
            if "coh" not in r:
                continue
            self.records += 1
            self.hist_service[r["svc"]] = self.hist_service.get(r["svc"], 0) + 1
            self.hist_expl[r["expl"]] = self.hist_expl.get(r["expl"], 0) + 1
            lv = re.search(r"lv=(\S+)", r["state"]).group(1)
            removed = bool(re.search(r"(^|,)r\d+", r.get("tr", "")))
            self.removals += 1 if removed else 0
            key = (r["svc"], lv, removed)
            self.distinct.add(key)
            if len(set(lv) - {"-"}) >= 2 or removed:
                if key not in self.nontrivial:
                    smp = {"service": r["svc"], "call": r["call"], "levels": lv, "trace": r.get("tr")}
                    if removed and len(self.samples_rem) < 3:
                        self.samples_rem.append(smp)
                    elif len(self.samples) < 3:
                        self.samples.append(smp)
                self.nontrivial.add(key)
            if r.get("rules", "-") != "-":
                self.rules_seen.update(int(x) for x in r["rules"].split(","))
            ma, mu = (int(x) for x in r.get("math", "0/0").split("/"))
            self.math_items += ma
            self.math_unreachable += mu
            if mu > 0:
                if not ctx.known_finding("C15-math-item-unreachable",
                                         "%s issue with item type MATH: the stored component is returned by no accessor (item()->component() == nullptr)" % r["svc"]):
                    self.violation("item of type MATH does not hand out its component", case, rec, replay_name)
            if r["coh"] != "ok":
                self.violation("logger incoherent after %s: %s" % (r["name"], r["coh"][:200]), case, rec, replay_name)
            if r["expl"] == "MISSING":
                fid = next((k for k, m in KNOWN.items() if m(r)), None)
                if fid is None or not ctx.known_finding(fid, "%s returned a failing result (%s) with an empty issue list" % (r["name"], r["res"])):
                    self.violation("failing result not explained: %s res=%s, issueCount()==0" % (r["name"], r["res"]), case, rec, replay_name)
            tr = r.get("tr", "-")
            if tr not in self.traces:
                self.traces[tr] = (r["state"], {"case": case, "record": rec})
            elif self.traces[tr][0] != r["state"]:
                # same primitive history, different observable state: the logger is not a function of its history
                self.violation("two loggers with the same operation history differ", case,
                               rec + "  VERSUS  " + self.traces[tr][1]["record"], replay_name)
        return None

    def last_call(self, case, mode):
        """re-run one crashed case with C15_ANNOUNCE to name the call that did not return"""
        try:
            line = case["line"] if isinstance(case, dict) else case
            cf = os.path.join(self.ctx.workdir, "crash.cases")
            open(cf, "w").write(line + "\n")
            p = subprocess.run([self.drv, mode, cf], stdout=subprocess.PIPE, stderr=subprocess.PIPE, timeout=120,
                               env=dict(os.environ, C15_ANNOUNCE="1"))
            calls = [l[5:] for l in p.stderr.decode("utf-8", "replace").split("\n") if l.startswith("CALL ")]
            res = [c for c in calls if c.startswith("-> ")]
            calls = [c for c in calls if not c.startswith("-> ")]
            if calls and calls[-1] == "importer.flattenModel" and res and res[-1] == "-> resolveImports=0":
                return "importer.flattenModel after resolveImports=0"
            return calls[-1] if calls else "?"
        except Exception as e:  # noqa
            return "?"

    def violation(self, what, case, rec, replay_name):
        self.nviol += 1
        if self.nviol <= 5:
            self.ctx.violation("C15 " + what, "%s_%d.json" % (replay_name, self.nviol),
                               {"mode": replay_name, "case": case, "record": rec, "what": what})


def compile_all(ctx):
    build = vf.build_repo("plain")
    drv = vf.compile_driver(build, os.path.join(vf.ROOT, "harness/c15_driver.cpp"), extra_flags=DRIVER_FLAGS)
    # private copy: the shared build cache keeps only a few trees and may drop this one while the run is under way
    import shutil
    mine = os.path.join(ctx.workdir, "c15_driver.run")
    shutil.copy2(drv, mine + ".tmp")
    os.replace(mine + ".tmp", mine)
    drv = mine
    mdl = vf.ocaml_driver("logger")
    # coq/gen is shared: a concurrent check running for another tree (VERIF_REPO) may have rewritten the tables between
    # the proof step and the extraction.  Make sure the model was extracted from the tables of *this* tree.
    import sys
    tools = os.path.join(vf.ROOT, "tools")
    if tools not in sys.path:
        sys.path.insert(0, tools)
    import translate_rules
    for _ in range(3):
        want = translate_rules.gen_rule_table(vf.REPO), translate_rules.gen_issue_sites(vf.REPO)
        have = tuple(open(os.path.join(vf.COQ, "gen", f)).read() for f in ("RuleTable.v", "IssueSites.v"))
        if want == have:
            break
        with vf.Lock("coq"):
            vf.regenerate_tables()
        mdl = vf.ocaml_driver("logger")
    return drv, mdl


def run(ctx):
    quick = ctx.quick()
    rng = ctx.rng
    ctx.proofs()
    ctx.assumptions += [
        "the three LoggerImpl primitives are observed at link level (ld --wrap on addIssue / removeAllIssues / removeError); "
        "a service that wrote mIssues/mErrors directly would escape the trace but not the state comparison",
        "identity of Issue objects = address while alive (the driver keeps every traced issue alive)",
        "the model takes the level of an issue as read by addIssue; the state comparison reads the levels again after the call, so a site that "
        "changed a level after adding the issue would show up as a disagreement",
        "'an annotator lookup or assignment fails' is read as: item()/typed lookup returns UNDEFINED/nullptr, assignId returns \"\", "
        "or assignIds/assignAllIds returns false because no (or a null) model is stored; false for 'nothing left to assign' is not a failure (documented)",
        "a service call that does not return (crash / uncaught exception / timeout) is reported: after such a call there is neither a result "
        "nor an issue list; the generators avoid the crash classes owned by other properties (cyclic units, analyser preconditions)",
        "translators (tools/translate_rules.py) copy tables faithfully; cross-checked by calling url()/referenceHeading() for every value",
    ]
    drv, mdl = compile_all(ctx)
    names, count, keys = table_facts()
    wd = ctx.workdir
    hist = {}

    # ---------------------------------------------------------------- 1. every ReferenceRule value
    vals = list(range(0, count + 4)) + [count + 50, 1000, 4999]
    cf = os.path.join(wd, "rules.cases")
    open(cf, "w").write("".join("R %d\n" % v for v in vals))
    cl = vf.sh([drv, "rules", cf], timeout=600)[1].split("\n")
    ml = vf.sh([mdl, cf], timeout=600)[1].split("\n")
    nb = 0
    for i, v in enumerate(vals):
        c = cl[i] if i < len(cl) else "<missing>"
        m = ml[i] if i < len(ml) else "<missing>"
        bad = []
        if c != m:
            bad.append("Issue::referenceHeading()/url() differ from the table regenerated from issue.cpp")
        f = dict(t.split("=", 1) for t in c.split(" ")[2:] if "=" in t) if c.startswith("R ") else {}
        if v in keys:
            if f.get("h", "THROW") == "THROW" or f.get("u", "THROW") == "THROW":
                bad.append("heading/url cannot be retrieved for rule %s" % names[v])
            elif v != 0:
                url = bytes.fromhex(f["u"][1:]).decode()
                if not url.endswith("?issue=" + names[v]):
                    if names[v] == "MAP_VARIABLES_VARIABLE2_ATTRIBUTE" and ctx.known_finding(
                            "C15-rule-name-mismatch", "url() of rule %s ends in %s" % (names[v], url.split("?")[-1])):
                        pass
                    else:
                        bad.append("url of rule %s names another rule: %s" % (names[v], url))
        elif v < count:
            # enumerator without a row: heading/url throw std::out_of_range; proved unreachable
            # (C15_rules_without_row_unreachable: it is named nowhere in src/*.cpp), so this is recorded, not reported
            hist["enumerators_without_row"] = hist.get("enumerators_without_row", []) + [names[v]]
        if bad and nb < 5:
            nb += 1
            ctx.violation("C15 rules: value %d (%s): %s" % (v, names[v] if v < count else "-", "; ".join(bad)), "rules_%d.json" % nb,
                          {"mode": "rules", "case": "R %d" % v, "impl": c, "model": m, "problems": bad})
    ctx.cov["evaluations"] += len(vals)
    ctx.log("rules: %d values (enum has %d), rows=%d" % (len(vals), count, len(keys)))

    # ---------------------------------------------------------------- 2. every holder setter x null x type
    hcases = ["H init"] + ["H %d %d %d" % (s, n, t) for s in range(18) for n in (0, 1) for t in range(15)]
    cf = os.path.join(wd, "holder.cases")
    open(cf, "w").write("".join(l + "\n" for l in hcases))
    cl = vf.sh([drv, "holder", cf], timeout=600)[1].split("\n")
    ml = vf.sh([mdl, cf], timeout=600)[1].split("\n")
    nb = 0
    unreach = 0
    for i, h in enumerate(hcases):
        c = cl[i] if i < len(cl) else "<missing>"
        m = ml[i] if i < len(ml) else "<missing>"
        if c != m and nb < 5:
            nb += 1
            ctx.violation("C15 holder: %s: implementation %r, model %r" % (h, c, m), "holder_%d.json" % nb,
                          {"mode": "holder", "case": h, "impl": c, "model": m})
        if " t=6 " in c and "any=ComponentPtr" in c and "acc=00000000" in c and h.split()[2:3] == ["0"]:
            unreach += 1
    if unreach:
        if not ctx.known_finding("C15-math-item-unreachable", "setMath(component): type()==MATH and every accessor returns nullptr (%d holder cases)" % unreach):
            ctx.violation("C15 holder: an item of type MATH hands out its component through no accessor", "holder_math.json",
                          {"mode": "holder", "case": "H 8 0 0"})
    ctx.cov["evaluations"] += len(hcases)
    ctx.log("holder: %d cases (18 setters x null/non-null x 15 types + init), exhaustive" % len(hcases))

    # ---------------------------------------------------------------- 3. random primitive sequences on a real LoggerImpl
    nops = 4000 if quick else 40000
    ocases = ["O aE0 aM1 r0", "O aE0 aM1 aW2 r0", "O", "O c", "O r0", "O aE0 r0 r0", "O aW0 aM1 aE2 r0", "O aE0 aE1 aE2 r2 r1 r0",
              "O aM0 aE1 aE2 aE3 r2 r1 r0 aE4", "O aE0 aW1 aE2 r0 aE3 r0 r0"]
    for _ in range(nops):
        n = rng.choice([1, 2, 3, 4, 5, 6, 8, 10, 14, 20, 30])
        ops = []
        nid = 0
        nerr = 0
        safe = rng.random() < 0.5   # half of the sequences only remove the last error while it is the last issue
        last_is_error = False
        for _ in range(n):
            k = rng.random()
            if k < 0.55:
                lv = rng.choice("EEWM")
                ops.append("a%s%d" % (lv, nid))
                nid += 1
                nerr += lv == "E"
                last_is_error = lv == "E"
            elif k < 0.62:
                ops.append("c")
                nerr = 0
                last_is_error = False
            else:
                if safe:
                    if last_is_error and nerr > 0:
                        ops.append("r%d" % (nerr - 1))
                        nerr -= 1
                        last_is_error = False   # unknown what is last now; stay conservative
                else:
                    ops.append("r%d" % rng.randrange(0, max(1, nerr + 1)))
                    nerr = max(0, nerr - 1)
        ocases.append("O " + " ".join(ops))
    cl = shard_run(drv, "ops", ocases, wd, "ops")
    cf = os.path.join(wd, "ops.cases")
    open(cf, "w").write("".join(l + "\n" for l in ocases))
    ml = vf.sh([mdl, cf], timeout=1500)[1].split("\n")
    nb = 0
    ophist = {"coherent_end": 0, "incoherent_end": 0, "throw": 0, "ub_guarded": 0}
    distinct_ops = set()
    for i, oc in enumerate(ocases):
        c = cl[i]
        m = ml[i] if i < len(ml) else "<missing>"
        mcore = re.sub(r" inv=\d last=\d$", "", m)
        if c != mcore and nb < 5:
            nb += 1
            ctx.violation("C15 ops: real LoggerImpl and model differ on %s" % oc, "ops_%d.json" % nb,
                          {"mode": "ops", "case": oc, "impl": c, "model": m})
        inv = " inv=1" in m
        ophist["coherent_end" if inv else "incoherent_end"] += 1
        ophist["throw"] += " st=THROW" in m
        ophist["ub_guarded"] += " st=UB" in m
        if " last=1" in m and not inv:
            ctx.violation("C15 ops: model says every removal was last but the state is incoherent (theorem C15_checked_trace_inv contradicted)",
                          "ops_theorem.json", {"mode": "ops", "case": oc, "model": m}, no_input=True)
        if len(set(re.findall(r"a([EWM])", oc))) >= 2 or " r" in oc:
            distinct_ops.add(oc)
    ctx.cov["evaluations"] += len(ocases)
    ctx.log("ops: %d sequences, %s" % (len(ocases), ophist))

    # ---------------------------------------------------------------- 4. services on documents
    ev = Eval(ctx, drv)
    docs = []
    ndoc = 260 if quick else 5000
    for i in range(ndoc):
        base = gen_model(rng)
        k = rng.random()
        if k < 0.35:
            docs.append(("valid", base))
        elif k < 0.8:
            docs.append(("invalid", mutate(rng, base, rng.choice([1, 1, 2, 3, 5]))))
        else:
            docs.append(("garbage", garbage(rng, base)))
    matrix = injection_matrix()
    docs += matrix
    docs += injection_matrix(order=True)      # kind "matrixo:...": the attribute / child ORDER dimension
    if not quick:   # matrix documents with one or two further random mutations on top
        for name, d in matrix:
            docs.append(("matrixmut:" + name.split(":", 1)[1], mutate(rng, d, rng.choice([1, 2]))))
    res_dir = os.path.join(vf.REPO, "tests", "resources")
    res_files = []
    for dpath, ds, fs in os.walk(res_dir):
        ds.sort()
        for f in sorted(fs):
            if f.endswith((".cellml", ".xml")):
                res_files.append(os.path.join(dpath, f))
    sample = res_files if not quick else rng.sample(res_files, min(70, len(res_files)))
    for p in sample:
        try:
            txt = open(p, encoding="utf-8", errors="replace").read()
        except OSError:
            continue
        if len(txt) < 400000:
            docs.append(("resource:" + os.path.relpath(p, res_dir), txt))
    slines = []
    smeta = []
    docs_by_line = []
    other_crashes = []
    for kind, d in docs:
        hx = d.encode("utf-8", "replace").hex()
        # matrix documents: one line (the ~70 annotator calls are made on the other document classes)
        for steps in ((("PQ" if quick else "PQV"),) if kind.startswith("matrixo") else
                      ("PQVRAEM",) if kind.startswith("matrix") else ("PQVRN", "PA", "QAEM")):
            if steps != "PQVRN" and (kind == "garbage"):
                continue
            slines.append("S %s %s" % (steps, hx))
            smeta.append((kind, steps))
            docs_by_line.append(d)
    # cyclic units that nothing uses: only the parser and the validator are asked (other entry points recurse without end
    # on such models - defect class of C01 / C07)
    cyc = ('<?xml version="1.0"?><model xmlns="%s" name="cyc"><units name="ua"><unit units="ub"/></units><units name="ub"><unit units="uc"/>'
           '</units><units name="uc"><unit units="ua" exponent="2"/></units><component name="c"><variable name="v" units="second"/></component></model>' % NS2)
    slines.append("S PV " + cyc.encode().hex())
    smeta.append(("targeted_cyclic_units", "PV"))
    docs_by_line.append("")
    # the dedicated crash probe (Annotator::item(id, 1) with a single item of that id)
    probe_doc = ('<?xml version="1.0"?><model xmlns="%s" name="m" id="only"><component name="c" id="cid"/></model>' % NS2)
    slines.append("S PX " + probe_doc.encode().hex())
    smeta.append(("probe_item_index", "PX"))
    docs_by_line.append(probe_doc)
    out = shard_run(drv, "svc", slines, wd, "svc")
    kinds = {}
    for i, l in enumerate(slines):
        kind, steps = smeta[i]
        kinds[kind.split(":")[0]] = kinds.get(kind.split(":")[0], 0) + 1
        known = None
        if has_units_cycle(docs_by_line[i]):
            known = lambda o: o.startswith("CRASH") and not other_crashes.append(1)
        if steps == "PX":   # matcher of C15-annotator-item-index-crash: this probe, SIGSEGV
            known = lambda o: o == "CRASH(11)" and ctx.known_finding(
                "C15-annotator-item-index-crash",
                "Annotator::item(id, 1) when exactly one item has that id: CRASH(11) instead of an UNDEFINED item and an issue")
        ev.line(l, out[i], "svc", known)
    ctx.cov["evaluations"] += len(slines)
    ctx.log("svc: %d cases over %d documents %s -> %d service calls checked, %d cases ended by a crash" % (
        len(slines), len(docs), kinds, ev.records, ev.crashed))

    # ---------------------------------------------------------------- 5. importer scenarios
    nimp = 400 if quick else 4000
    root = os.path.join(wd, "imports")
    os.makedirs(root, exist_ok=True)
    ilines = []
    idesc = []
    for i in range(nimp):
        d, main, strict, script, desc = gen_import_case(rng, root, i)
        ilines.append("I %d %s %s %s" % (1 if strict else 0, d, main, script))
        idesc.append(desc)
    # import scenarios of the repository's own resources
    imp_res = [p for p in res_files if any(s in p for s in ("/importer/", "/modelflattening/", "import")) ]
    imp_sample = imp_res if not quick else rng.sample(imp_res, min(40, len(imp_res)))
    for p in imp_sample:
        for strict in (1, 0):
            ilines.append("I %d %s %s %s" % (strict, os.path.dirname(p), os.path.basename(p), "rfn"))
            idesc.append({"resource": os.path.relpath(p, res_dir), "strict": bool(strict)})
    rec_before = ev.records
    rem_before = ev.removals
    out = shard_run(drv, "imp", ilines, wd, "imp")
    libkinds = {}
    for i, l in enumerate(ilines):
        for lb in idesc[i].get("libs", []):
            libkinds[lb["kind"]] = libkinds.get(lb["kind"], 0) + 1
        ev.line({"line": l, "scenario": idesc[i]}, out[i], "imp")
    ctx.cov["evaluations"] += len(ilines)
    ctx.log("imp: %d scenarios (%d generated graphs, libs %s) -> %d service calls, %d with removeError" % (
        len(ilines), nimp, libkinds, ev.records - rec_before, ev.removals - rem_before))

    # ---------------------------------------------------------------- 5b. ONE service instance over a sequence of inputs
    hlines = []
    hmeta = []

    def tok(x):
        return "NULL" if x is None else (x.encode("utf-8", "replace").hex() or "NULL")
    services = [("P", 1), ("P", 0), ("V", 0), ("A", 0), ("R", 0), ("N", 0), ("I", 1), ("I", 0)]
    for svc, strict in services:
        seqs = [(a, b) for a in INPUT_CLASSES for b in INPUT_CLASSES]           # every ordered pair of input classes
        for _ in range(30 if quick else 600):
            seqs.append(tuple(rng.choice(INPUT_CLASSES) for _ in range(rng.choice([3, 3, 4]))))
        for seq in seqs:
            hlines.append("Y %s %d %s" % (svc, strict, " ".join(tok(input_of(rng, c)) for c in seq)))
            hmeta.append({"service": svc, "strict": strict, "inputs": list(seq)})
    # one importer over several of the generated import graphs
    for _ in range(60 if quick else 1200):
        picks = [rng.randrange(nimp) for _ in range(rng.choice([2, 3, 4]))]
        hlines.append("Z %d %s" % (rng.randrange(2), " ".join("%s main.cellml" % os.path.join(root, "g%d" % k) for k in picks)))
        hmeta.append({"service": "importer", "graphs": picks})
    rec_before = ev.records
    out = shard_run(drv, "hist", hlines, wd, "hist")
    seqhist = {}
    for i, l in enumerate(hlines):
        key = hmeta[i]["service"] if isinstance(hmeta[i]["service"], str) else "?"
        seqhist[key] = seqhist.get(key, 0) + 1
        ev.line({"line": l, "history": hmeta[i]}, out[i], "hist")
    ctx.cov["evaluations"] += len(hlines)
    ctx.log("hist: %d histories re-using one service instance (%s; all 49 ordered pairs of %s per service + longer) -> %d service calls" % (
        len(hlines), seqhist, "/".join(INPUT_CLASSES), ev.records - rec_before))

    # ---------------------------------------------------------------- 6. replay every recorded trace through the model
    trs = sorted(ev.traces)
    cf = os.path.join(wd, "traces.cases")
    open(cf, "w").write("".join("O %s\n" % (t if t != "-" else "") for t in trs))
    ml = vf.sh([mdl, cf], timeout=1500)[1].split("\n")
    nb = 0
    notlast = 0
    for i, t in enumerate(trs):
        m = ml[i] if i < len(ml) else "<missing>"
        state, ex = ev.traces[t]
        mm = re.match(r"O n=(\d+) st=(\w+) (.*) inv=(\d) last=(\d)$", m)
        nops_t = 0 if t == "-" else len(t.split(","))
        bad = None
        if not mm:
            bad = "model produced %r" % m
        elif mm.group(2) != "OK" or int(mm.group(1)) != nops_t:
            bad = "model stops after %s operations with %s; the library ran all %d" % (mm.group(1), mm.group(2), nops_t)
        elif mm.group(3) != state:
            bad = "state after the recorded operations differs"
        elif mm.group(5) != "1":
            notlast += 1
            bad = "a service called removeError on an error that was not the last issue (precondition of C15_remove_error_inv_iff violated)"
        elif mm.group(4) != "1":
            bad = "model state incoherent"
        if bad and nb < 5:
            nb += 1
            ev.nviol += 1
            ctx.violation("C15 trace: %s" % bad, "trace_%d.json" % nb,
                          {"mode": "trace", "trace": t, "impl_state": state, "model": m, "case": ex["case"], "record": ex["record"], "what": bad})
    ctx.log("traces: %d distinct operation histories recorded from the services replayed through the model; removals not-last: %d" % (len(trs), notlast))

    # ---------------------------------------------------------------- rule coverage
    sites_txt = open(os.path.join(vf.COQ, "gen", "IssueSites.v")).read()
    mm = re.search(r"Definition rule_mentions : list \(string \* nat \* nat \* bool\) := \[(.*?)\n\]\.", sites_txt, flags=re.S)
    used = set(int(x[2]) for x in re.findall(r'\("([^"]*)", (\d+), (\d+), (true|false)\)', mm.group(1)))
    used.add(0)   # UNDEFINED: the sites that set no rule
    observed = ev.rules_seen & used
    unobserved = sorted(used - ev.rules_seen)
    rule_cov = {"rules_used_at_some_site": len(used), "observed_on_real_issues": len(observed),
                "unobserved": [names[r] for r in unobserved],
                "observed_but_not_in_site_table": [names[r] if r < count else str(r) for r in sorted(ev.rules_seen - used)]}
    ctx.cov["rule_coverage"] = rule_cov
    ctx.log("rule coverage: %d of %d rules used at some site were observed on real issues; unobserved: %s" % (
        len(observed), len(used), ", ".join(rule_cov["unobserved"]) or "-"))
    if rule_cov["observed_but_not_in_site_table"]:
        ctx.violation("C15: an issue carries a rule that is written nowhere in src/*.cpp according to the regenerated site table: %s"
                      % rule_cov["observed_but_not_in_site_table"], "rule_not_in_sites.json", rule_cov, no_input=True)

    # ---------------------------------------------------------------- coverage
    hist.update({"service_calls": ev.hist_service, "explained_clause": ev.hist_expl, "documents": kinds,
                 "import_lib_kinds": libkinds, "instance_reuse_histories": seqhist, "ops_sequences": ophist, "calls_with_removeError": ev.removals,
                 "issues_with_MATH_item": ev.math_items, "of_which_component_unreachable": ev.math_unreachable,
                 "cases_ended_by_crash": ev.crashed, "of_which_cyclic_units_documents_(other_properties)": len(other_crashes),
                 "of_which_flattenModel_after_failed_resolveImports_(other_properties)": len(ev.other_crashes),
                 "rules_seen_on_real_issues": len(ev.rules_seen), "rule_values_checked": len(vals), "holder_cases": len(hcases)})
    ctx.cov["distinct_nontrivial"] = len(ev.nontrivial) + len(distinct_ops)
    ctx.cov["rule"] = ("service runs: distinct by (service, level sequence of the issue list, removal happened); non-trivial = at least two levels "
                       "present or a removeError happened [%d distinct, %d non-trivial]; primitive sequences: distinct by text, non-trivial = two "
                       "levels added or a removeError present [%d]. Rule values 0..%d+ and the %d holder cases are enumerated completely." % (
                           len(ev.distinct), len(ev.nontrivial), len(distinct_ops), count, len(hcases)))
    ctx.cov["samples"] = ev.samples_rem + ev.samples + [ocases[len(ocases) // 2], ilines[0] if ilines else ""]
    ctx.cov["input_distribution"] = hist
    ctx.cov["traces_validated_against_impl"] = len(trs) + len(ocases) + len(vals) + len(hcases)
    ctx.cov["exhaustive"] = False


def replay(ctx, path):
    r = json.load(open(path))
    drv, mdl = compile_all(ctx)
    mode = r.get("mode")
    wd = ctx.workdir
    cf = os.path.join(wd, "replay.cases")
    if mode in ("rules", "holder", "ops"):
        open(cf, "w").write(r["case"] + "\n")
        print("impl :", vf.sh([drv, mode, cf])[1].strip())
        print("model:", vf.sh([mdl, cf])[1].strip())
    elif mode in ("svc", "imp", "hist", "trace"):
        case = r["case"]
        line = case["line"] if isinstance(case, dict) else case
        open(cf, "w").write(line + "\n")
        out = vf.sh([drv, {"S": "svc", "I": "imp"}.get(line[:1], "hist"), cf])[1].strip()
        for rec in out.split(" ; "):
            print("impl :", rec)
            p = parse_record(rec)
            if p.get("tr"):
                tf = os.path.join(wd, "replay.trace")
                open(tf, "w").write("O %s\n" % (p["tr"] if p["tr"] != "-" else ""))
                print("model:", vf.sh([mdl, tf])[1].strip())
    else:
        print(json.dumps(r, indent=1))
