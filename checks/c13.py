"""C13 — identifier assignment is complete, unique and non-destructive.

proofs : Properties_C13.v (hex injective; makeUniqueId terminates by pigeonhole and is fresh; assign* complete,
         non-destructive and fresh for EVERY annotator state and id vector, i.e. every history of edits; lookups exact;
         ids()/duplicateIds()/itemCount() = independent traversal; printer ids unique; refutations for the code
         before the three repairs and for ids inside MathML)
tie    : random models built through script.hpp + random histories of setModel / id edits / assignAllIds /
         assignIds(type) / assignId(item) / clearAllIds / lookups / printModel(model, true) run on a real
         libcellml::Annotator (harness/c13_driver.cpp) and on the extracted model (ocaml/ids/driver.ml); the model
         predicts the EXACT identifiers, all return values, the items found (kind, object, variable order)
search : the property's own oracle on the implementation's output alone (independent traversal = ids read back
         through the public getter of every position of the generator's slot table): completeness, preservation,
         freshness w.r.t. the ids present at call time (MathML included), lookup exactness, printer uniqueness/purity
"""
import json
import os
import re
import shutil
import subprocess

import vf
from script_gen import S, ScriptBuilder

KINDS = ["model", "enc", "import", "units", "unit", "comp", "compref", "var", "reset", "tv", "rv", "conn", "map"]
DESC_OF_KIND = {"model": "m", "enc": "e", "import": "i", "units": "u", "unit": "ui", "comp": "c", "compref": "cr",
                "var": "v", "reset": "r", "tv": "tv", "rv": "rv", "conn": "cn", "map": "mp", "math": "ma", "outside": "ov"}
KIND_OF_DESC = {v: k for k, v in DESC_OF_KIND.items()}
ACC_OF_KIND = {"comp": "comp", "compref": "comp", "conn": "pair", "map": "pair", "model": "model", "enc": "model",
               "import": "import", "reset": "reset", "tv": "reset", "rv": "reset", "units": "units", "unit": "unit",
               "var": "var"}
ACCS = ["comp", "pair", "model", "import", "reset", "units", "unit", "var"]
COUNTER0 = 0xb4da55
MATH_NS = 'xmlns="http://www.w3.org/1998/Math/MathML" xmlns:cellml="http://www.cellml.org/cellml/2.0#"'
# C13_MODEL=pinned runs the model of the code BEFORE the three C13 repairs (diagnosis of a tree without them)
MODEL_ARGS = ["pinned"] if os.environ.get("C13_MODEL") == "pinned" else []
VALUE_MATH = '<math %s><cn cellml:units="dimensionless">1</cn></math>' % MATH_NS


def is_auto_shaped(s):
    """six lower-case hex digits within the range the generators can reach in a run"""
    try:
        return len(s) == 6 and s == s.lower() and COUNTER0 <= int(s, 16) < COUNTER0 + 4096
    except ValueError:
        return False


# ------------------------------------------------------------------------------------------------ generator

def listed_of(structure_text):
    """-> (listed non-MathML positions, MathML positions, component_ref positions outside the hierarchy)"""
    w = structure_text.split()
    listed, math, inapp = set(), set(), set()
    i = 0
    while i < len(w):
        t = w[i]
        if t == "N":
            i += 2
        elif t == "M":
            listed |= {int(w[i + 1]), int(w[i + 2])}
            i += 3
        elif t == "U":
            n = int(w[i + 3])
            listed.add(int(w[i + 1]))
            if w[i + 2] != "-":
                listed.add(int(w[i + 2]))
            listed |= {int(x) for x in w[i + 4:i + 4 + n]}
            i += 4 + n
        elif t == "C":
            listed |= {int(w[i + 1]), int(w[i + 3])}
            if w[i + 2] != "-":
                listed.add(int(w[i + 2]))
            if w[i + 4] == "1" and w[i + 5] == "0":
                inapp.add(int(w[i + 3]))
            i += 7
        elif t == "V":
            listed.add(int(w[i + 1]))
            i += 2
        elif t == "E":
            listed |= {int(w[i + 1]), int(w[i + 2])}
            i += 4
        elif t == "R":
            listed |= {int(w[i + 1]), int(w[i + 2]), int(w[i + 3])}
            i += 6
        elif t == "H":
            math.add(int(w[i + 1]))
            i += 2
        else:
            raise ValueError("structure token " + t)
    return listed, math, inapp


class Model:
    """a random model: script (for script.hpp), slot table (for the C++ driver), structure (for the Coq model)"""

    def __init__(self, rng, big=False, first_slot=0):
        r = rng
        b = ScriptBuilder(first_slot=first_slot)
        self.table = []       # id-slot -> (desc kind, a, b)
        self.kind = []        # id-slot -> kind name
        m = b.model("m")
        self.m = m
        self.slot_model = self.new("m", m)
        self.slot_enc = self.new("e", m)
        imports = []          # (script slot, id-slot)

        def import_source():
            if imports and r.random() < 0.45:
                return r.choice(imports)
            i = b.importsource()
            b.cmd("seturl", i, S("lib%d.cellml" % len(imports)))
            imports.append((i, self.new("i", i)))
            return imports[-1]

        # units
        self.units = []
        for ui in range(r.choice([0, 0, 1, 1, 2, 3])):
            u = b.units("u%d" % ui)
            b.cmd("addunits", m, u)
            rec = {"slot": self.new("u", u), "imp": None, "items": []}
            if r.random() < 0.3:
                isrc = import_source()
                b.cmd("setsourceunits", u, isrc[0], S("ref_u%d" % ui))
                rec["imp"] = isrc[1]
            else:
                for k in range(r.choice([0, 1, 1, 2, 3])):
                    b.cmd("addunit_ref", u, S(r.choice(["metre", "second", "kilogram", "volt"])))
                    rec["items"].append(self.new("ui", u, k))
            self.units.append(rec)
        # component tree
        ncomp = r.choice([1, 1, 2, 2, 3, 3, 4, 5, 6] + ([8, 10] if big else []))
        comps = []            # creation order
        for ci in range(ncomp):
            c = b.component("c%d" % ci)
            parent = None
            if comps and r.random() < 0.55:
                parent = r.choice(comps)
            b.cmd("addcomponent", m if parent is None else parent["script"], c)
            rec = {"script": c, "parent": parent, "kids": [], "slot": self.new("c", c), "enc": self.new("cr", c), "imp": None,
                   "vars": [], "resets": [], "math": [], "name": "c%d" % ci}
            if parent is not None:
                parent["kids"].append(rec)
            comps.append(rec)
        tops = [c for c in comps if c["parent"] is None]
        for c in comps:
            if r.random() < 0.2:
                isrc = import_source()
                b.cmd("setsourcecomponent", c["script"], isrc[0], S("ref_" + c["name"]))
                c["imp"] = isrc[1]
        # variables, math
        allvars = []
        for c in comps:
            if c["imp"] is not None:
                continue
            for vi in range(r.choice([0, 1, 1, 2, 2, 3])):
                v = b.variable("v%d" % vi)
                b.cmd("addvariable", c["script"], v)
                vr = {"script": v, "slot": self.new("v", v), "comp": c, "eqs": []}
                c["vars"].append(vr)
                allvars.append(vr)
            if r.random() < 0.3:
                for k in range(r.choice([1, 2])):
                    c["math"].append(self.new("ma", c["script"], k))
        # resets
        for c in comps:
            if not c["vars"]:
                continue
            for ri in range(r.choice([0, 0, 0, 1, 1, 2])):
                rs = b.reset(ri + 1)
                b.cmd("addreset", c["script"], rs)
                b.cmd("setvariable", rs, r.choice(c["vars"])["script"])
                b.cmd("settestvariable", rs, r.choice(c["vars"])["script"])
                tvm = r.random() < 0.6
                rvm = r.random() < 0.6
                if tvm:
                    b.cmd("settestvalue", rs, S(VALUE_MATH))
                if rvm:
                    b.cmd("setresetvalue", rs, S(VALUE_MATH))
                c["resets"].append({"script": rs, "slot": self.new("r", rs), "tv": self.new("tv", rs), "rv": self.new("rv", rs),
                                    "tvm": tvm, "rvm": rvm})
        # equivalences: every equivalence class holds at most one variable of a component
        cls = {id(v): [v] for v in allvars}
        conn_slots = {}
        for _ in range(r.choice([0, 0, 1, 2, 3, 4, 6] + ([8] if big else []))):
            if len(allvars) < 2:
                break
            v1, v2 = r.sample(allvars, 2)
            if v1["comp"] is v2["comp"] or cls[id(v1)] is cls[id(v2)]:
                continue
            c1 = {id(x["comp"]) for x in cls[id(v1)]}
            c2 = {id(x["comp"]) for x in cls[id(v2)]}
            if c1 & c2:
                continue
            b.cmd("addequivalence", v1["script"], v2["script"])
            merged = cls[id(v1)] + cls[id(v2)]
            for x in merged:
                cls[id(x)] = merged
            mp = self.new("mp", v1["script"], v2["script"])
            key = frozenset((id(v1["comp"]), id(v2["comp"])))
            if key not in conn_slots:
                conn_slots[key] = self.new("cn", v1["script"], v2["script"])
            cn = conn_slots[key]
            v1["eqs"].append((mp, cn, v2["slot"]))
            v2["eqs"].append((mp, cn, v1["slot"]))
        # equivalences whose OTHER END is outside the model: a variable of another model ("world"), a variable without
        # parent.  They stay with the variable that is inside (annotator.cpp / printer.cpp traverse the model's variables).
        self.has_outside = False
        if allvars and r.random() < 0.3:
            self.has_outside = True
            w = b.model("world")
            wc = b.component("wc")
            b.cmd("addcomponent", w, wc)
            world = {"world": True}
            used_classes = []
            for _ in range(r.choice([1, 1, 2, 3])):
                v1 = r.choice(allvars)
                if any(cls[id(v1)] is u for u in used_classes):
                    continue            # its class already holds a variable of the world component
                used_classes.append(cls[id(v1)])
                wv = b.variable("w%d" % len(used_classes))
                b.cmd("addvariable", wc, wv)
                ov = self.new("ov", wv)
                b.cmd("addequivalence", v1["script"], wv)
                mp = self.new("mp", v1["script"], wv)
                key = frozenset((id(v1["comp"]), id(world)))
                if key not in conn_slots:
                    conn_slots[key] = self.new("cn", v1["script"], wv)
                v1["eqs"].append((mp, conn_slots[key], ov))
            if r.random() < 0.5:
                v1 = r.choice(allvars)
                pv = b.variable("orphan")
                ov = self.new("ov", pv)
                b.cmd("addequivalence", v1["script"], pv)
                mp = self.new("mp", v1["script"], pv)
                cn = self.new("cn", v1["script"], pv)      # no second component: the connection id lives on the pair alone
                v1["eqs"].append((mp, cn, ov))
                self.orphan = True
        # pre-order
        self.comps = []

        def walk(c):
            self.comps.append(c)
            for k in c["kids"]:
                walk(k)
        for c in tops:
            walk(c)
        for c in comps:
            sibs = tops if c["parent"] is None else c["parent"]["kids"]
            c["sib"] = [id(x) for x in sibs].index(id(c))
        self.script = b.text()
        self.next_slot = b.next_slot
        self.max_eqs = max([len(v["eqs"]) for v in allvars] + [0])
        self.n = len(self.table)
        # ---- structural edits that can be made after hand-over: (structure text, script command); alternative 0 = no edit
        self.alts = [(self.structure_text(), None)]
        cands = []
        for c in self.comps:
            sub = set()

            def collect(x):
                sub.add(id(x))
                for kid in x["kids"]:
                    collect(kid)
            collect(c)
            parent = m if c["parent"] is None else c["parent"]["script"]
            if r.random() < 0.5:
                cmd = "removecomponent_p %d %d" % (parent, c["script"])
            else:
                cmd = "takecomponent_i %d %d" % (parent, c["sib"])
            cands.append((self.structure_text(removed=sub), cmd))
        if not getattr(self, "orphan", False):
            pairs = {}
            for c in self.comps:
                for v in c["vars"]:
                    for e in v["eqs"]:
                        pairs.setdefault(e[1], set()).add(e[0])
            for c in self.comps:
                for v in c["vars"]:
                    # its connection cells must not be shared with another equivalence (the cell would split)
                    if v["eqs"] and all(len(pairs[e[1]]) == 1 for e in v["eqs"]) and all(self.kind[e[2]] == "var" for e in v["eqs"]):
                        cands.append((self.structure_text(removed_var=v), "removevariable_p %d %d" % (c["script"], v["script"])))
        r.shuffle(cands)
        self.alts += cands[:2]
        self.alt_listed = [listed_of(t) for t, _ in self.alts]

    def new(self, k, a, b=None):
        self.table.append((k, a, b))
        self.kind.append(KIND_OF_DESC[k])
        return len(self.table) - 1

    def table_text(self):
        return ",".join(k + ":" + str(a) + ("" if b is None else ":" + str(b)) for k, a, b in self.table)

    def alts_text(self):
        return " ~ ".join(t for t, _ in self.alts)

    def structure_text(self, removed=frozenset(), removed_var=None):
        """the structure, optionally after removing the components in `removed` (ids of component records; whole
        subtrees) or one variable: equivalences keep their place on the variables that remain"""
        t = ["N", len(self.table), "M", self.slot_model, self.slot_enc]
        for u in self.units:
            t += ["U", u["slot"], "-" if u["imp"] is None else u["imp"], len(u["items"])] + u["items"]
        for c in self.comps:
            if id(c) in removed:
                continue
            sibs = [x for x in self.comps if x["parent"] is c["parent"] and id(x) not in removed]
            sibs.sort(key=lambda x: x["sib"])
            kids = [x for x in c["kids"] if id(x) not in removed]
            t += ["C", c["slot"], "-" if c["imp"] is None else c["imp"], c["enc"], int(c["parent"] is None), int(bool(kids)),
                  [id(x) for x in sibs].index(id(c))]
            for v in c["vars"]:
                if v is removed_var:
                    continue
                t += ["V", v["slot"]]
                for e in v["eqs"]:
                    t += ["E"] + list(e)
            for x in c["resets"]:
                t += ["R", x["slot"], x["tv"], x["rv"], int(x["tvm"]), int(x["rvm"])]
            for h in c["math"]:
                t += ["H", h]
        return " ".join(str(x) for x in t)

    # ---- what the oracle needs
    def applicable(self, slot):
        """component_ref positions of top-level components without children are outside the encapsulation hierarchy"""
        if self.kind[slot] != "compref":
            return True
        for c in self.comps:
            if c["enc"] == slot:
                return c["parent"] is not None or bool(c["kids"])
        return True

    def obj_of(self, kind, slot, a, b):
        """the object text the C++ driver prints for a typed lookup that finds this item"""
        d = self.table[slot]
        if kind == "unit":
            return "o:%d.%d" % (d[1], d[2])
        if kind in ("conn", "map"):
            return "o:%d-%d" % (self.table[a][1], self.table[b][1])
        return "o:%d" % d[1]


PROBE_IDS = ["v=1", "v=0", "e=0", "ec=", "cr=0", "c=1", "c=0", "r=0", "rv=", "tv=", "u=0", "U=1", "i=2", "me=", "m=", "ce=", "v=1x", "=", "a=b"]


def gen_probe_history(rng, mdl):
    """histories whose ids contain '=' (the separator of the annotator's hash string): they test that the model
    serialises exactly like generateHash(); stale look-ups in them are the known finding C13-hash-string-ambiguous"""
    r = rng
    ops = []
    hist = {"probe": 1}
    pairs = []          # (slot a, slot b, id) such that moving id from b to a keeps the serialised string
    for c in mdl.comps:
        vs = c["vars"]
        for i in range(len(vs) - 1):
            pairs.append((vs[i]["slot"], vs[i + 1]["slot"], "v=%d" % (i + 1)))
        for x in c["resets"]:
            pairs.append((x["slot"], x["rv"], "rv="))
            pairs.append((x["rv"], x["tv"], "tv="))
    for u in mdl.units:
        it = u["items"]
        for i in range(len(it) - 1):
            pairs.append((it[i], it[i + 1], "u=%d" % (i + 1)))
    for _ in range(r.randint(0, 3)):
        ops.append("E %d %s" % (r.randrange(mdl.n), S(r.choice(PROBE_IDS + ["id1", ""]))))
    if pairs and r.random() < 0.8:
        a, b, x = r.choice(pairs)
        ops += ["E %d %s" % (a, S("")), "E %d %s" % (b, S(x)), "S", "i %s" % S(x), "n %s" % S(x),
                "E %d %s" % (a, S(x)), "E %d %s" % (b, S("")), "i %s" % S(x), "l %s" % S(x), "d"]
        if r.random() < 0.5:
            ops += [r.choice(["A", "T var", "T reset", "T rv"]), "i %s" % S(x), "d", "D"]
    else:
        ops.append("S")
    for _ in range(r.randint(2, 10)):
        k = r.random()
        if k < 0.5:
            ops.append("E %d %s" % (r.randrange(mdl.n), S(r.choice(PROBE_IDS + ["", "id2", "b4da55"]))))
        elif k < 0.6:
            ops.append(r.choice(["A", "T var", "T comp", "C"]))
        else:
            x = S(r.choice(PROBE_IDS + ["b4da55", "id1"]))
            ops.append(r.choice(["i %s" % x, "n %s" % x, "u %s" % x, "l %s" % x, "d", "D"]))
    ops += ["d", "D"]
    return ops, False, hist


def pick_item(r, mdl, alt):
    """an item of the model (as it is after structural edit `alt`) for assignId: (kind, position, a, b) or None;
    connections / mappings only when both variables are inside (assignId refuses the others: isOwnedByModel)"""
    listed = mdl.alt_listed[alt][0]
    slot = r.choice(sorted(listed))
    kd = mdl.kind[slot]
    a = bb = 0
    if kd in ("conn", "map"):
        cands = [(v["slot"], e[2]) for c in mdl.comps for v in c["vars"] for e in v["eqs"]
                 if e[0 if kd == "map" else 1] == slot and v["slot"] in listed and e[2] in listed and mdl.kind[e[2]] == "var"]
        if not cands:
            return None
        a, bb = r.choice(cands)
    return kd, slot, a, bb


def gen_history(rng, mdl, long=False):
    """-> (ops text list, nontrivial flag, histogram of op kinds)"""
    r = rng
    n = mdl.n
    nonmath = [i for i in range(n) if mdl.kind[i] != "math"]
    used = []                       # ids written so far (for duplicates and look-ups)
    hist = {}
    ops = []
    state = {"set": False, "edited": False, "auto": False, "nontrivial": False, "alt": 0}

    def some_id():
        k = r.random()
        if k < 0.10:
            return ""
        if k < 0.45:
            return "%x" % (COUNTER0 + r.choice([0, 0, 1, 1, 2, 3, 4, 5, 6, 8, 11, 15, 20, 40]))
        if k < 0.65 and used:
            return r.choice(used)
        if k < 0.9:
            return "id%d" % r.randint(1, 9)
        return r.choice(["B4DA55", "b4da550", "0b4da55", "b4da5", "xb4da55", "b4da55 ", "é", "a.b-c_d", "ID1", "b4da5A"])

    def lookup_id():
        k = r.random()
        if k < 0.55:
            return "%x" % (COUNTER0 + r.randint(0, 12))
        if k < 0.9 and used:
            return r.choice(used)
        return r.choice(["id1", "nope", "", "b4da54"])

    def edit():
        slot = r.randrange(n)
        if r.random() < 0.1 and mdl.comps and any(c["math"] for c in mdl.comps):
            slot = r.choice([h for c in mdl.comps for h in c["math"]])
        x = some_id()
        if x:
            used.append(x)
        if is_auto_shaped(x):
            state["auto"] = True
        if state["set"]:
            state["edited"] = True
        ops.append("E %d %s" % (slot, S(x)))
        hist["edit:" + mdl.kind[slot]] = hist.get("edit:" + mdl.kind[slot], 0) + 1

    def assign_done(what):
        if state["edited"] or state["auto"]:
            state["nontrivial"] = True
        hist[what] = hist.get(what, 0) + 1

    # ids present when the model is handed over
    dens = r.choice([0.0, 0.0, 0.15, 0.4, 0.8])
    for _ in range(int(dens * n) + r.choice([0, 0, 1, 2])):
        edit()
    if r.random() < 0.07:            # operations on an annotator that has no model yet
        ops.append(r.choice(["A", "T var", "d", "i %s" % S("b4da55"), "C"]))
        hist["no-model"] = hist.get("no-model", 0) + 1
    ops.append("S")
    state["set"] = True
    for _ in range(r.randint(4, 22 if not long else 40)):
        k = r.random()
        if k < 0.30:
            edit()
        elif k < 0.36:
            ops.append("S")
            state["edited"] = False
            hist["setModel"] = hist.get("setModel", 0) + 1
        elif k < 0.44:
            ops.append("A")
            assign_done("assignAllIds")
        elif k < 0.56:
            kd = r.choice(KINDS + ["math", "undefined"])
            ops.append("T " + kd)
            assign_done("assignIds:" + kd)
        elif k < 0.68:
            item = pick_item(r, mdl, state["alt"])
            if item is None:
                continue
            kd, slot, a, bb = item
            ops.append("I %s %d %d %d %d" % (kd, slot, a, bb, r.choice([0, 0, 1])))
            assign_done("assignId:" + kd)
        elif k < 0.71:
            ops.append("C")
            hist["clearAllIds"] = hist.get("clearAllIds", 0) + 1
        elif k < 0.76:
            ops.append("P")
            hist["printModel"] = hist.get("printModel", 0) + 1
        elif k < 0.79 and state["alt"] == 0 and len(mdl.alts) > 1:
            # structural edit after hand-over (equivalences to the removed entities stay with the variables that remain)
            state["alt"] = r.randrange(1, len(mdl.alts))
            ops.append("R 0 %d %s" % (state["alt"], mdl.alts[state["alt"]][1]))
            state["edited"] = True
            hist["structural-edit:" + mdl.alts[state["alt"]][1].split("_")[0]] = hist.get("structural-edit:" + mdl.alts[state["alt"]][1].split("_")[0], 0) + 1
            ops.append(r.choice(["A", "T map", "T conn", "T var", "d", "P"]))
        else:
            x = S(lookup_id())
            q = r.choice(["i", "i", "x", "l", "u", "n", "d", "D", "t", "t"])
            if q == "x":
                ops.append("x %s %d" % (x, r.choice([0, 0, 1, 2, 5])))
            elif q == "t":
                ops.append("t %s %s %d" % (r.choice(ACCS), x, r.choice([0, 0, 1, 2])))
            elif q in ("d", "D"):
                ops.append(q)
            else:
                ops.append("%s %s" % (q, x))
            hist["lookup:" + q] = hist.get("lookup:" + q, 0) + 1
    if r.random() < 0.2:
        # the same Printer prints the model again after it gained automatic ids
        ops += ["P", r.choice(["I model %d 0 0 0" % mdl.slot_model, "A", "T var", "T comp"]), "P"]
        hist["print-assign-print"] = hist.get("print-assign-print", 0) + 1
    if r.random() < 0.5:
        ops += ["d", "D"]
    return ops, state["nontrivial"], hist


def make_case(mdl, ops):
    return "|".join([mdl.script, mdl.table_text(), mdl.alts_text(), ";".join(ops)])


def make_multi_case(models, ops):
    """models: list of (Model, clone_of index or None)"""
    return "|".join([";".join(m.script for m, cl in models if cl is None),
                     "/".join(m.table_text() if cl is None else "clone:%d" % cl for m, cl in models),
                     "/".join(m.alts_text() for m, cl in models),
                     ";".join(ops)])


def gen_multi_history(rng, big=False):
    """several models handed to ONE annotator in turn: a model, its clone, a twin (built by the same recipe: same
    structure, other objects), other models; ids mirrored between the look-alikes so that their hash strings agree;
    setModel switches, the first model again, a model that is then destroyed; look-ups and assignments in between.
    -> (models, ops, nontrivial, histogram)"""
    r = rng
    seed0 = r.getrandbits(48)
    import random as _random
    m0 = Model(_random.Random(seed0), big=big)
    models = [(m0, None)]
    family = [0]                # models with the layout of model 0
    nxt = m0.next_slot
    for _ in range(r.choice([1, 2, 2, 3, 4])):
        k = r.random()
        if k < 0.35 and m0.max_eqs <= 1 and not m0.has_outside:
            models.append((m0, 0))          # models[0]->clone()
            family.append(len(models) - 1)
        elif k < 0.7:
            tw = Model(_random.Random(seed0), big=big, first_slot=nxt)
            nxt = tw.next_slot
            models.append((tw, None))
            family.append(len(models) - 1)
        else:
            ot = Model(_random.Random(r.getrandbits(48)), first_slot=nxt)
            nxt = ot.next_slot
            models.append((ot, None))
    nm = len(models)
    ops, hist = [], {"multi": 1}
    alive = [True] * nm
    alts_now = [0] * nm
    known = [[] for _ in range(nm)]         # ids written to each model
    used = []
    state = {"cur": None, "edited": False, "auto": False, "nontrivial": False}

    def some_id():
        k = r.random()
        if k < 0.08:
            return ""
        if k < 0.4:
            return "%x" % (COUNTER0 + r.choice([0, 0, 1, 1, 2, 3, 4, 5, 6, 8, 11]))
        if k < 0.6 and used:
            return r.choice(used)
        return "id%d" % r.randint(1, 9)

    def edit(k, mirror):
        mdl = models[k][0]
        slot = r.randrange(mdl.n)
        x = some_id()
        targets = [j for j in family if alive[j]] if (mirror and k in family) else [k]
        for j in targets:
            ops.append("E %d %s %d" % (slot, S(x), j))
            if x:
                known[j].append(x)
        if x:
            used.append(x)
        if is_auto_shaped(x):
            state["auto"] = True
        if state["cur"] is not None:
            state["edited"] = True
        hist["edit"] = hist.get("edit", 0) + 1

    def lookups(k, n):
        for _ in range(n):
            pool = known[k] if (known[k] and r.random() < 0.8) else ["%x" % (COUNTER0 + r.randint(0, 8)), "nope"]
            x = S(r.choice(pool))
            q = r.choice(["i", "i", "t", "t", "l", "x", "n", "u"])
            if q == "t":
                ops.append("t %s %s %d" % (r.choice(ACCS), x, r.choice([0, 0, 1])))
            elif q == "x":
                ops.append("x %s %d" % (x, r.choice([0, 0, 1])))
            else:
                ops.append("%s %s" % (q, x))
            hist["lookup"] = hist.get("lookup", 0) + 1

    def set_model(k):
        ops.append("S %d" % k)
        state["cur"] = k
        state["edited"] = False
        hist["setModel:%s" % ("look-alike" if k in family else "other")] = hist.get("setModel:%s" % ("look-alike" if k in family else "other"), 0) + 1
        lookups(k, r.choice([1, 2, 2, 3]))

    mirror_p = r.choice([1.0, 1.0, 0.8, 0.5])
    for _ in range(r.randint(2, 10)):
        edit(r.randrange(nm), r.random() < mirror_p)
    set_model(0)
    for _ in range(r.randint(6, 24)):
        cur = state["cur"]
        k = r.random()
        livings = [j for j in range(nm) if alive[j]]
        if cur is None or k < 0.28:
            cands = [j for j in livings if j != cur] or livings
            fam = [j for j in cands if j in family]
            set_model(r.choice(fam) if fam and r.random() < 0.7 else r.choice(cands))
        elif k < 0.48:
            edit(r.choice(livings), r.random() < mirror_p)
        elif k < 0.52 and len(livings) > 1:
            ops.append("X")
            alive[cur] = False
            state["cur"] = None
            hist["destroy"] = hist.get("destroy", 0) + 1
            if r.random() < 0.5:
                ops.append(r.choice(["d", "A", "i %s" % S("id1"), "n %s" % S("b4da55")]))
        elif k < 0.64:
            mdl = models[cur][0]
            q = r.random()
            if q < 0.4:
                ops.append("A")
            elif q < 0.7:
                ops.append("T " + r.choice(KINDS))
            else:
                item = pick_item(r, mdl, alts_now[cur])
                if item is None:
                    ops.append("A")
                else:
                    ops.append("I %s %d %d %d %d" % (item + (r.choice([0, 1]),)))
            if state["edited"] or state["auto"]:
                state["nontrivial"] = True
            hist["assign"] = hist.get("assign", 0) + 1
            for x in range(3):
                known[cur].append("%x" % (COUNTER0 + r.randint(0, 12)))
        elif k < 0.67:
            ops.append("C")
        elif k < 0.70:
            ops.append("P")
        elif k < 0.73 and alts_now[cur] == 0 and len(models[cur][0].alts) > 1 and models[cur][1] is None \
                and not any(cl == cur for _, cl in models):
            mdl = models[cur][0]
            alts_now[cur] = r.randrange(1, len(mdl.alts))
            ops.append("R %d %d %s" % (cur, alts_now[cur], mdl.alts[alts_now[cur]][1]))
            state["edited"] = True
            hist["structural-edit"] = hist.get("structural-edit", 0) + 1
            ops.append(r.choice(["A", "T map", "T conn", "d", "P"]))
        elif k < 0.77:
            ops.append(r.choice(["d", "D"]))
        else:
            lookups(cur, 1)
    if state["cur"] is not None and r.random() < 0.3:
        # one Printer across models and assignments
        ops += ["P", "A", "P"]
        others = [j for j in range(nm) if alive[j] and j != state["cur"]]
        if others:
            ops += ["S %d" % r.choice(others), "P", "T var", "P"]
    ops += ["d", "D"]
    return models, ops, state["nontrivial"], hist


# ------------------------------------------------------------------------------------------------ judging one case

def unS(tok):
    return bytes.fromhex(tok[1:]).decode("latin-1")


def snap_ids(text):
    return [unS(t) for t in text.split(",")] if text else []


def parse_table(text):
    out = []
    for t in text.split(","):
        f = t.split(":")
        out.append((f[0], int(f[1]), int(f[2]) if len(f) > 2 else None))
    return out


class TableView:
    """what the oracle knows about a case from its slot tables and structure texts alone (used for replays too);
    the attributes table / kind / n / inapplicable are those of the selected model"""

    def __init__(self, case):
        secs = case.split("|")
        ttexts = secs[1].split("/")
        stexts = secs[2].split("/")
        self.tables, self.kinds, self.alts = [], [], []
        for k, tt in enumerate(ttexts):
            tt = tt.strip()
            self.alts.append([listed_of(a) for a in stexts[k].split("~")])      # per alternative: (listed, math, inapplicable)
            if tt.startswith("clone:"):
                j = int(tt[6:])
                self.tables.append(self.tables[j])       # same positions; script objects differ (never used for clones)
                self.kinds.append(self.kinds[j])
                continue
            table = parse_table(tt)
            self.tables.append(table)
            self.kinds.append([KIND_OF_DESC[d[0]] for d in table])
        self.nmodels = len(self.tables)
        self.alt = [0] * self.nmodels        # the structure every model has at present
        self.ops = [o for o in secs[3].split(";") if o.strip()]
        self.select(0)

    def select(self, k):
        self.table = self.tables[k]
        self.kind = self.kinds[k]
        self.n = len(self.table)
        self.listed, self.math, self.inapplicable = self.alts[k][self.alt[k]]

    def primary(self, k, kind, slot, a, b):
        """the text the C++ driver prints for the OBJECT of an item: position of its primary descriptor"""
        table = self.tables[k]
        if kind in ("conn", "map"):
            return "o:%d-%d" % (a, b)
        want = {"compref": "c", "enc": "m", "tv": "r", "rv": "r"}.get(kind)
        if want is None:
            return "o:%d" % slot
        obj = table[slot][1]
        for i, d in enumerate(table):
            if d[0] == want and d[1] == obj:
                return "o:%d" % i
        return "o:?"

    def obj_of(self, kind, slot, a, b):
        return self.primary(self.tables.index(self.table), kind, slot, a, b)


ENTRY_RE = re.compile(r"(?<![0-9a-z])(\d+|\?)\.(?=[a-z]+:)")


def strip_owner(text):
    """'1.var:4:0:0' -> (['1'], 'var:4:0:0'); works on lists of entries and on typed results ('1.o:4')"""
    return ENTRY_RE.findall(text), ENTRY_RE.sub("", text)


def canon_model_result(tv, op, res):
    """the model prints the item found; for typed look-ups the implementation can only show the object"""
    if op.startswith("t ") and res != "undef" and ":" in res:
        owner, rest = res.split(".", 1)
        k, sl, a, b = rest.split(":")
        return "%s.%s" % (owner, tv.primary(int(owner), k, int(sl), int(a), int(b)))
    if op.startswith("t ") and res == "undef":
        return "null"
    return res


def judge(case, cline, mline):
    """-> (problems, known) : problems = list of strings (violations), known = list of (finding id, text)"""
    problems, known = [], []
    tv = TableView(case)
    if not mline or mline.startswith("MODEL-ERROR") or " # " not in mline:
        return ["model driver failed: %r" % mline[:200]], known
    mres, mtail = mline.split(" # ", 1)
    mtail = dict(x.split("=", 1) for x in mtail.split())
    if mtail.get("wf") != "1":
        problems.append("WF: generated structure is not well-formed for the model (wf=0)")
    if mtail.get("err") != "0":
        problems.append("model: a fuelled loop ran out of fuel (err=1)")
    if cline.startswith(("CRASH", "THROW", "TIMEOUT", "SCRIPT-", "BAD-")) or " # " not in cline:
        return problems + ["implementation: %s" % cline[:200]], known
    cres, ctail = cline.split(" # ", 1)
    ctail = dict(x.split("=", 1) for x in ctail.split())
    cr, mr = cres.split(";"), mres.split(";")
    ops = tv.ops
    if len(cr) != len(ops) or len(mr) != len(ops):
        return problems + ["result count differs: ops=%d impl=%d model=%d" % (len(ops), len(cr), len(mr))], known

    has_eq = any(o.split()[0] == "E" and "=" in unS(o.split()[2]) for o in ops)
    lookup_problems = []        # look-up oracle failures; excused (known finding) only in histories with '=' ids
    # ids of every model according to the implementation (edits applied, snapshots taken over)
    curs = [[""] * len(t) for t in tv.tables]
    alive = [True] * tv.nmodels
    curk = 0                    # the model the annotator holds (or held last)
    has_model = False

    def carriers(x):
        return [i for i in nonmath if cur[i] == x]

    for k, op in enumerate(ops):
        w = op.split()
        tv.select(curk)
        cur = curs[curk]
        nonmath = sorted(tv.listed)       # the positions of the model as it is now (removed entities are outside)
        math = sorted(tv.math)
        inside = tv.listed | tv.math
        c, m = cr[k], canon_model_result(tv, op, mr[k])
        # ---------------- correspondence
        if c != m:
            if (not has_model) and (not alive[curk]) and w[0] in ("i", "x", "l", "u", "n", "d", "D", "t"):
                # look-up after the stored model died: the model empties the list (fixes/C13-4); the code before that
                # repair answers from the list of the destroyed model when the stored hash happens to be 0
                known.append(("C13-expired-model-stale-list",
                              "op %s after the model was destroyed: impl=%s, expected %s (%s)" % (op, c[:80], m[:80], case_hint(case))))
            else:
                problems.append("op %d (%s): impl=%s model=%s" % (k, op, c[:160], m[:160]))
        # ---------------- the property's oracle, on the implementation's answers only
        if w[0] == "S":
            has_model = True
            curk = int(w[1]) if len(w) > 1 else 0
            if not alive[curk]:
                problems.append("bad case: setModel on a destroyed model")
        elif w[0] == "X":
            has_model = False
            alive[curk] = False
            if c != "-":
                problems.append("ORACLE op %d: the annotator still has a model after the last reference was dropped (%s)" % (k, c))
        elif w[0] == "R":
            tv.alt[int(w[1])] = int(w[2])
            if c != "-":
                problems.append("bad case: structural edit failed: %s" % c)
        elif w[0] == "E":
            curs[int(w[3]) if len(w) > 3 else 0][int(w[1])] = unS(w[2])
        elif w[0] in ("A", "T", "I", "C"):
            if "@" not in c:
                problems.append("op %d (%s): no snapshot" % (k, op))
                continue
            ret, snap = c.split("@", 1)
            if snap == "-":
                if has_model or ret not in ("b0", "s", "-"):
                    problems.append("ORACLE op %d (%s): no model to read back / success reported without a model" % (k, op))
                continue
            after = snap_ids(snap)
            before = cur
            if len(after) != tv.n:
                problems.append("op %d (%s): snapshot length" % (k, op))
                continue
            changed = [i for i in range(tv.n) if after[i] != before[i]]
            if any(i not in inside for i in changed):
                problems.append("ORACLE op %d (%s): positions %s that are not part of the model were changed" %
                                (k, op, [i for i in changed if i not in inside][:6]))
            if not has_model:
                if changed or ret not in ("b0", "s", "-"):
                    problems.append("ORACLE op %d (%s): annotator without a model changed ids or reported success" % (k, op))
                cur = curs[curk] = after
                continue
            if w[0] == "C":
                bad = [i for i in nonmath if after[i] != ""] + [i for i in math if after[i] != before[i]]
                if bad:
                    problems.append("ORACLE op %d clearAllIds: positions %s not cleared / MathML changed" % (k, bad[:5]))
                cur = curs[curk] = after
                continue
            if w[0] == "A":
                wanted = [i for i in nonmath if i not in tv.inapplicable]
                keep = list(range(tv.n))
            elif w[0] == "T":
                wanted = [i for i in nonmath if tv.kind[i] == w[1] and i not in tv.inapplicable]
                keep = list(range(tv.n))
            else:
                wanted = [int(w[2])]
                keep = [i for i in range(tv.n) if i != int(w[2])]
            # completeness
            missing = [i for i in wanted if after[i] == ""]
            if missing:
                problems.append("ORACLE op %d (%s): COMPLETENESS: positions %s (%s) still have no id" %
                                (k, op, missing[:6], [tv.kind[i] for i in missing[:6]]))
            # preservation
            if w[0] == "I":
                lost = [i for i in keep if after[i] != before[i]]
                if after[int(w[2])] == before[int(w[2])] or unS(ret) != after[int(w[2])]:
                    problems.append("ORACLE op %d (%s): assignId did not give the item a new id / returned another one (%r -> %r, returned %r)" %
                                    (k, op, before[int(w[2])], after[int(w[2])], unS(ret)))
            else:
                lost = [i for i in keep if before[i] != "" and after[i] != before[i]]
                extra = [i for i in changed if i not in wanted]
                if extra:
                    problems.append("ORACLE op %d (%s): positions %s outside the requested kind were given ids" % (k, op, extra[:6]))
                if (ret == "b1") != bool(changed):
                    problems.append("ORACLE op %d (%s): returned %s but %d ids were assigned" % (k, op, ret, len(changed)))
            if lost:
                problems.append("ORACLE op %d (%s): PRESERVATION: existing ids at positions %s changed (%r -> %r)" %
                                (k, op, lost[:6], before[lost[0]], after[lost[0]]))
            # freshness w.r.t. every id present at call time, MathML included
            new = [after[i] for i in changed if after[i] != ""]
            present = set(before[i] for i in inside if before[i] != "")
            present_nonmath = set(before[i] for i in nonmath if before[i] != "")
            clash = [x for x in new if x in present]
            if len(set(new)) != len(new):
                problems.append("ORACLE op %d (%s): FRESHNESS: the same new id was handed out twice: %s" % (k, op, sorted(new)[:8]))
            if clash:
                only_math = [x for x in clash if x not in present_nonmath]
                if len(only_math) == len(clash):
                    known.append(("C13-mathml-ids-invisible",
                                  "op %s: new id %r equals an id carried by a MathML element (%s)" % (op, clash[0], case_hint(case))))
                else:
                    problems.append("ORACLE op %d (%s): FRESHNESS: new id %r was already present in the model at the time of the call" %
                                    (k, op, [x for x in clash if x in present_nonmath][0]))
            cur = curs[curk] = after
        elif w[0] in ("i", "x", "l", "u", "n", "d", "D", "t"):
            if not has_model:
                continue
            owners, c = strip_owner(c)
            if any(o != str(curk) for o in owners):
                problems.append("ORACLE op %d (%s): IDENTITY: the annotator holds model %d but returned an object of model %s (%s)" %
                                (k, op, curk, [o for o in owners if o != str(curk)][0], cr[k][:120]))
            if w[0] in ("d", "D"):
                ids = sorted(set(cur[i] for i in nonmath if cur[i] != ""), key=lambda s: s.encode("latin-1"))
                if w[0] == "D":
                    ids = [x for x in ids if len(carriers(x)) > 1]
                exp = "[" + ",".join("s" + x.encode("latin-1").hex() for x in ids) + "]"
                if c != exp:
                    lookup_problems.append("ORACLE op %d (%s): %s differs from the independent traversal: impl=%s expected=%s" %
                                    (k, op, "ids()" if w[0] == "d" else "duplicateIds()", c[:120], exp[:120]))
                continue
            x = unS(w[1]) if w[0] != "t" else unS(w[2])
            cs = carriers(x) if x != "" else []
            if w[0] == "n" and c != str(len(cs)):
                lookup_problems.append("ORACLE op %d itemCount(%r): impl=%s, %d positions carry it" % (k, x, c, len(cs)))
            if w[0] == "u" and c != ("b1" if len(cs) == 1 else "b0"):
                lookup_problems.append("ORACLE op %d isUnique(%r): impl=%s, %d positions carry it" % (k, x, c, len(cs)))
            if w[0] == "i":
                if len(cs) == 1:
                    f = c.split(":")
                    if len(f) != 4 or f[0] != tv.kind[cs[0]] or int(f[1]) != cs[0]:
                        lookup_problems.append("ORACLE op %d item(%r): impl=%s but the id is carried by exactly %s:%d" % (k, x, c, tv.kind[cs[0]], cs[0]))
                elif c != "undef":
                    lookup_problems.append("ORACLE op %d item(%r): impl=%s but %d positions carry it" % (k, x, c, len(cs)))
            if w[0] == "l":
                got = sorted(tuple(t.split(":")[:2]) for t in c.strip("[]").split(",") if t)
                exp = sorted((tv.kind[i], str(i)) for i in cs)
                if got != exp:
                    lookup_problems.append("ORACLE op %d items(%r): impl=%s expected positions %s" % (k, x, c[:120], exp[:8]))
            if w[0] == "x":
                idx = int(w[2])
                if (idx >= len(cs)) != (c == "undef"):
                    lookup_problems.append("ORACLE op %d item(%r, %d): impl=%s but %d positions carry it" % (k, x, idx, c, len(cs)))
                elif c != "undef":
                    f = c.split(":")
                    if len(f) != 4 or int(f[1]) not in cs or f[0] != tv.kind[int(f[1])]:
                        lookup_problems.append("ORACLE op %d item(%r, %d): impl=%s is not a carrier" % (k, x, idx, c))
            if w[0] == "t":
                if len(cs) == 1 and ACC_OF_KIND[tv.kind[cs[0]]] == w[1]:
                    i = cs[0]
                    if tv.kind[i] in ("conn", "map"):
                        ok = c.startswith("o:") and "-" in c
                    else:
                        ok = c == tv.obj_of(tv.kind[i], i, 0, 0)
                    if not ok:
                        lookup_problems.append("ORACLE op %d typed(%s, %r): impl=%s but the id is carried by exactly %s:%d" % (k, w[1], x, c, tv.kind[i], i))
                elif c != "null":
                    lookup_problems.append("ORACLE op %d typed(%s, %r): impl=%s, expected null" % (k, w[1], x, c))
        elif w[0] == "P":
            body = c[1:]
            flags = ""
            if "!" in body:
                body, flags = body.split("!", 1)
            if flags:
                problems.append("ORACLE op %d printModel(model, true): %s" % (k, flags))
            doc = [unS(t) for t in body.split(",")] if body else []
            present = set(cur[i] for i in inside if cur[i] != "")
            present_nonmath = set(cur[i] for i in nonmath if cur[i] != "")
            new = [x for x in doc if x not in present_nonmath]
            if len(set(new)) != len(new):
                problems.append("ORACLE op %d printModel(model, true): a generated id is written twice: %s" % (k, sorted(new)[:8]))
            reused = [x for x in sorted(set(doc)) if x in present_nonmath and doc.count(x) > len(carriers(x))]
            if reused:
                problems.append("ORACLE op %d printModel(model, true): id %r is written on %d elements but only %d positions of the model carry it: "
                                "a generated id equals an existing one" % (k, reused[0], doc.count(reused[0]), len(carriers(reused[0]))))
            mclash = [x for x in new if x in present]
            if mclash:
                known.append(("C13-mathml-ids-invisible",
                              "printModel(model, true): generated id %r equals an id carried by a MathML element (%s)" % (mclash[0], case_hint(case))))
    if lookup_problems:
        if has_eq:
            known.append(("C13-hash-string-ambiguous",
                          "%s in a history with identifiers containing '=' (%s)" % (lookup_problems[0][:160], case_hint(case))))
        else:
            problems += lookup_problems
    if ctail.get("final") is not None:
        fin = ctail["final"].split("/")
        for j in range(tv.nmodels):
            if alive[j] and (j >= len(fin) or fin[j] == "-" or snap_ids(fin[j]) != curs[j]):
                problems.append("ORACLE: ids of model %d read back at the end differ from edits + snapshots (an operation that should not touch ids did)" % j)
    if ctail.get("final") != mtail.get("final"):
        problems.append("final ids differ: impl=%s model=%s" % (ctail.get("final", "")[:200], mtail.get("final", "")[:200]))
    return problems, known


def case_hint(case):
    return "history of %d operations" % len([o for o in case.split("|")[3].split(";") if o.strip()])


# ------------------------------------------------------------------------------------------------ running

def run_dir(ctx):
    """scratch directory of THIS process (several checks of C13 may run at the same time)"""
    d = os.path.join(ctx.workdir, "run-%d" % os.getpid())
    os.makedirs(d, exist_ok=True)
    return d


def run_both(ctx, drv, mdl_exe, cases, tag):
    """run both drivers on the cases (sharded over the cores); -> (impl lines, model lines)"""
    nsh = max(1, min(vf.NCPU, len(cases) // 20 + 1))
    procs = []
    for k in range(nsh):
        part = cases[k::nsh]
        p = os.path.join(run_dir(ctx), "%s.%d.cases" % (tag, k))
        with open(p, "w") as f:
            f.write("\n".join(part) + ("\n" if part else ""))
        pc = subprocess.Popen([drv, p], stdout=subprocess.PIPE, stderr=subprocess.DEVNULL)
        pm = subprocess.Popen([mdl_exe, p] + MODEL_ARGS, stdout=subprocess.PIPE, stderr=subprocess.DEVNULL)
        procs.append((k, len(part), pc, pm))
    cl = [None] * len(cases)
    ml = [None] * len(cases)
    for k, cnt, pc, pm in procs:
        co = pc.communicate(timeout=3000)[0].decode("latin-1").split("\n")
        mo = pm.communicate(timeout=3000)[0].decode("latin-1").split("\n")
        for j in range(cnt):
            cl[k + j * nsh] = co[j] if j < len(co) else "<missing>"
            ml[k + j * nsh] = mo[j] if j < len(mo) else "<missing>"
    return cl, ml


def shrink(ctx, drv, mdl_exe, case, want):
    """greedy removal of operations while a problem of the same class (ORACLE or correspondence) remains"""
    secs = case.split("|")
    ops = [o for o in secs[3].split(";") if o.strip()]
    for _ in range(80):
        cands = []
        for i in range(len(ops)):
            cands.append("|".join(secs[:3] + [";".join(ops[:i] + ops[i + 1:])]))
        if not cands:
            break
        cl, ml = run_both(ctx, drv, mdl_exe, cands, "shrink")
        hit = None
        for i, cnd in enumerate(cands):
            pr, _ = judge(cnd, cl[i], ml[i])
            if pr and any(want(p) for p in pr):
                hit = i
                break
        if hit is None:
            break
        ops = ops[:hit] + ops[hit + 1:]
    return "|".join(secs[:3] + [";".join(ops)])


def explain(case):
    """human-readable form of a case for the replay file"""
    tv = TableView(case)
    out = []
    for o in tv.ops:
        w = o.split()
        if w[0] == "E":
            kk = int(w[3]) if len(w) > 3 else 0
            d = tv.tables[kk][int(w[1])]
            out.append("model %d: set id of position %s (%s of script object %s) to %r" % (kk, w[1], tv.kinds[kk][int(w[1])], d[1:], unS(w[2])))
        elif w[0] == "S":
            out.append("annotator->setModel(model %s)" % (w[1] if len(w) > 1 else "0"))
        elif w[0] == "X":
            out.append("drop the last reference to the model the annotator holds")
        elif w[0] == "R":
            out.append("model %s: structural edit through script.hpp: %s   (script slots)" % (w[1], " ".join(w[3:])))
        elif w[0] == "A":
            out.append("annotator->assignAllIds()")
        elif w[0] == "T":
            out.append("annotator->assignIds(%s)" % w[1])
        elif w[0] == "I":
            out.append("annotator->assignId(<%s at position %s>)" % (w[1], w[2]))
        elif w[0] == "C":
            out.append("annotator->clearAllIds()")
        elif w[0] == "P":
            out.append("printer->printModel(model, true)")
        else:
            names = {"i": "item", "x": "item(id, index)", "l": "items", "u": "isUnique", "n": "itemCount", "d": "ids", "D": "duplicateIds", "t": "typed accessor"}
            args = [unS(x) if x.startswith("s") and all(ch in "0123456789abcdef" for ch in x[1:]) else x for x in w[1:]]
            out.append("annotator->%s(%s)" % (names.get(w[0], w[0]), ", ".join(repr(a) for a in args)))
    return out


def run(ctx):
    quick = ctx.quick()
    ctx.proofs()
    ctx.assumptions += [
        "A-hash: std::hash<std::string> is treated as injective on the serialised id strings met in a run and never 0 (the model stores the string itself)",
        "A-counter: size_t wrap-around of the id counter is not modelled (fewer than 2^64 - 0xb4da55 ids)",
        "identifier strings in generated histories avoid the characters '<', '&', '\"' (the printer does not escape) and '=' (separator of the annotator's hash string)",
        "generated models keep every equivalence class to at most one variable per component and set connection ids only through "
        "Variable::setEquivalenceConnectionId, so that one connection id is shared by all equivalences between two components (the storage cell the model uses); "
        "the 4-argument addEquivalence / removeEquivalenceConnectionId can make Variable::equivalenceConnectionId address-dependent and are outside the histories",
        "structural edits (adding/removing entities) between setModel and assign are covered by the theorems (assign* rebuild from the model) but not generated",
        "purity of Printer::printModel is observed on the implementation (dump before/after); in the functional model it holds by construction",
    ]
    build = vf.build_repo("plain")
    drv = vf.compile_driver(build, os.path.join(vf.ROOT, "harness/c13_driver.cpp"))
    mdl_exe = vf.ocaml_driver("ids")

    n_hist = 1500 if quick else 30000
    cases, meta = [], []
    corpus = os.path.join(vf.ROOT, "corpus", "C13.txt")
    if os.path.exists(corpus):
        for l in open(corpus):
            if l.strip():
                cases.append(l.rstrip("\n"))
                meta.append((True, {"corpus": 1}))
    hist_total = {}
    sizes = {}
    mdl = None
    while len(cases) < n_hist:
        if mdl is None or ctx.rng.random() < 0.5:
            mdl = Model(ctx.rng, big=ctx.rng.random() < 0.1)
        if ctx.rng.random() < 0.25:
            mm, ops, nontriv, hist = gen_multi_history(ctx.rng, big=ctx.rng.random() < 0.1)
            cases.append(make_multi_case(mm, ops))
            meta.append((nontriv, hist))
            for k, v in hist.items():
                hist_total[k] = hist_total.get(k, 0) + v
            b = "several models (%d)" % len(mm)
            sizes[b] = sizes.get(b, 0) + 1
            continue
        if ctx.rng.random() < 0.04:
            ops, nontriv, hist = gen_probe_history(ctx.rng, mdl)
        else:
            ops, nontriv, hist = gen_history(ctx.rng, mdl, long=ctx.rng.random() < 0.15)
        cases.append(make_case(mdl, ops))
        meta.append((nontriv, hist))
        for k, v in hist.items():
            hist_total[k] = hist_total.get(k, 0) + v
        b = "%d-%d positions" % (mdl.n // 10 * 10, mdl.n // 10 * 10 + 9)
        sizes[b] = sizes.get(b, 0) + 1
    cl, ml = run_both(ctx, drv, mdl_exe, cases, "hist")
    nontrivial = set()
    nviol = 0
    nops = 0
    tally = {}
    for i, case in enumerate(cases):
        problems, known = judge(case, cl[i], ml[i])
        for cls_ in set(("oracle: " + " ".join(p.split(":")[1].split()[:1]) if p.startswith("ORACLE") else "correspondence") for p in problems):
            tally[cls_] = tally.get(cls_, 0) + 1
        nops += len(case.split("|")[3].split(";"))
        if meta[i][0]:
            nontrivial.add(case.split("|", 1)[1])
        for fid, text in known:
            if not ctx.known_finding(fid, text):
                problems.append("finding %s is not listed: %s" % (fid, text))
        if problems and nviol < 4:
            nviol += 1
            oracle = any(p.startswith("ORACLE") for p in problems)
            small = shrink(ctx, drv, mdl_exe, case, (lambda p: p.startswith("ORACLE")) if oracle else (lambda p: True))
            scl, sml = run_both(ctx, drv, mdl_exe, [small], "min")
            spr, _ = judge(small, scl[0], sml[0])
            ctx.violation("C13: %s" % (spr or problems)[0][:300], "history_%d.json" % nviol,
                          {"case": small, "operations": explain(small), "impl": scl[0], "model": sml[0], "problems": spr or problems,
                           "original_case": case, "original_problems": problems[:10]})
    ctx.cov["evaluations"] = nops
    ctx.cov["histories"] = len(cases)
    ctx.cov["distinct_nontrivial"] = len(nontrivial)
    ctx.cov["rule"] = ("a history (random model + sequence of operations) is non-trivial when an id edit happened between setModel and an "
                       "assignment, or an id of the automatic shape (b4da55 ...) pre-exists when an assignment is made; distinct by the text "
                       "of slot table + structure + operations; evaluations = operations executed on both sides")
    ctx.cov["samples"] = [c.split("|", 3)[3][:300] for c in cases[:3]]
    ctx.cov["input_distribution"] = {"operations": dict(sorted(hist_total.items())), "model_size": sizes}
    ctx.cov["traces_validated_against_impl"] = len(cases)
    shutil.rmtree(run_dir(ctx), ignore_errors=True)
    ctx.log("histories=%d operations=%d nontrivial=%d problem tally (histories)=%s" % (len(cases), nops, len(nontrivial), tally))


def replay(ctx, path):
    r = json.load(open(path))
    build = vf.build_repo("plain")
    drv = vf.compile_driver(build, os.path.join(vf.ROOT, "harness/c13_driver.cpp"))
    mdl_exe = vf.ocaml_driver("ids")
    case = r["case"]
    cl, ml = run_both(ctx, drv, mdl_exe, [case], "replay")
    for line in explain(case):
        print("  ", line)
    print("impl :", cl[0])
    print("model:", ml[0])
    pr, kn = judge(case, cl[0], ml[0])
    for p in pr:
        print("PROBLEM:", p)
    for k in kn:
        print("KNOWN:", k)
