"""C16 — numeric text is recognised per the CellML grammar and never crashes.

proofs : Properties_C16.v (recogniser = grammar = DFA; conversions total; printed shapes re-readable)
tie    : extracted model vs internal functions of the fresh build, same strings, every field compared
search : the grammar automata (proved equal to the grammar) + python's correctly rounded float/int as
         oracle on the implementation, directly and in the eight public positions
"""
import itertools
import math
import os
import vf

SIGMA = ["0", "1", "9", "+", "-", ".", "e", "E", " ", "a"]
POS = ["exponent", "multiplier", "prefix", "order", "initial", "cn", "cne_m", "cne_e"]
STD_PREFIXES = ["yotta", "zetta", "exa", "peta", "tera", "giga", "mega", "kilo", "hecto", "deca", "deci", "centi",
                "milli", "micro", "nano", "pico", "femto", "atto", "zepto", "yocto"]
DBL_MIN = 2.2250738585072014e-308


def enum_strings(maxlen):
    for n in range(0, maxlen + 1):
        for t in itertools.product(SIGMA, repeat=n):
            yield "".join(t)


def random_strings(rng, count):
    out = []
    specials = ["2147483647", "2147483648", "-2147483648", "-2147483649", "+2147483647", "+2147483648",
                "1.7976931348623157e308", "1.7976931348623159e308", "1e308", "1e309", "-1e309", "2e308", "1.8e308",
                "4.9e-324", "2e-324", "1e-400", "2.2250738585072014e-308", "2.2250738585072009e-308", "1e-307", "1e-308", "1e-309",
                "0e0", "-0", "-0.0e-0", "00000000000000000000000000000001", "1" + "0" * 320, "0." + "0" * 330 + "1",
                "9" * 25, "-" + "9" * 25, "1e+2147483647", "1e-2147483648", "1e99999999999", "0e99999999999", "1E+05", "1.E5", ".5E-3",
                "0x10", "1f", "inf", "-inf", "nan", "NaN", "infinity", "1e", "e1", "1e+", "1e-", "--1", "+-1", "1..2", "1.2.3", ".", "-.", "+.5",
                "+1.5", " 1", "1 ", "\t1", "1\n", "1,5", "１", "1_0", "1e1e1", "1E1E1", "1eE1", "-e1", ".e1", "-.e1", "+", "-", ""]
    out.extend(specials)
    digits = "0123456789"
    for _ in range(count):
        k = rng.random()
        if k < 0.55:   # mostly valid shape, then maybe one mutation
            s = rng.choice(["", "-", "-", "+"]) if rng.random() < 0.6 else ""
            a = "".join(rng.choice(digits) for _ in range(rng.choice([0, 1, 1, 2, 5, 17, 30])))
            b = "".join(rng.choice(digits) for _ in range(rng.choice([0, 0, 1, 3, 16, 25])))
            s += a + (("." + b) if rng.random() < 0.6 else "")
            if rng.random() < 0.6:
                s += rng.choice("eE") + rng.choice(["", "+", "-"]) + "".join(
                    rng.choice(digits) for _ in range(rng.choice([0, 1, 1, 2, 3, 3, 4, 12])))
            if rng.random() < 0.35 and s:
                i = rng.randrange(len(s) + 1)
                m = rng.random()
                if m < 0.4:
                    s = s[:i] + rng.choice(SIGMA + ["x", ",", "\t", "f"]) + s[i:]
                elif m < 0.7 and i < len(s):
                    s = s[:i] + s[i + 1:]
                else:
                    s = s[:i] + rng.choice(SIGMA) + s[i + 1:]
            out.append(s)
        else:
            n = rng.choice([1, 2, 3, 5, 6, 7, 8, 12, 20, 40])
            out.append("".join(rng.choice(SIGMA + list("23")) for _ in range(n)))
    return out


def py_double(parts):
    """parts 'm e' from the model ('-12e-3') -> (python float correctly rounded, is_zero_mantissa)"""
    neg = parts.startswith("-")
    body = parts[1:] if neg else parts
    m, e = body.split("e", 1)
    mi, ei = int(m), int(e)
    if mi == 0:
        return (-0.0 if neg else 0.0), True
    # avoid gigantic exponents in the float parser: clamp, the value is decided long before
    nd = len(str(mi))
    if ei + nd > 400:
        v = math.inf
    elif ei + nd < -400:
        v = 0.0
    else:
        v = float("%se%d" % (m, ei))
    return (-v if neg else v), False


def field(line, key):
    for t in line.split():
        if t.startswith(key + "="):
            return t[len(key) + 1:]
    return None


def check_direct(ctx, s, cl, ml):
    """compare one C++ line with one model line; returns list of problem strings"""
    bad = []
    if cl.startswith("THROW") or cl.startswith("CRASH") or cl.startswith("TIMEOUT") or cl == "<missing>":
        return ["implementation %s on direct calls" % cl]
    cf, mf = cl.split(), ml.split()
    names = ["isCellMLInteger", "isCellMLBasicReal", "isCellMLReal", "isNonNegativeCellMLInteger"]
    for i, nm in enumerate(names):
        if cf[i] != mf[i]:
            bad.append("%s: impl=%s model=%s" % (nm, cf[i], mf[i]))
    # oracle = the grammar automata (Properties_C16: real_dfa_iff, int_dfa_iff)
    if cf[2] != field(ml, "rdfa"):
        bad.append("ORACLE real grammar: impl accepts=%s grammar=%s" % (cf[2], field(ml, "rdfa")))
    if cf[0] != field(ml, "idfa"):
        bad.append("ORACLE integer grammar: impl accepts=%s grammar=%s" % (cf[0], field(ml, "idfa")))
    ci, mi = field(cl, "int"), field(ml, "int")
    exp_i = mi if mi not in ("no", "range") else "no"
    if ci != exp_i:
        bad.append("convertToInt: impl=%s model=%s" % (ci, mi))
    if mi not in ("no", "range"):
        try:
            if int(s) != int(ci):
                bad.append("ORACLE convertToInt value: impl=%s python=%d" % (ci, int(s)))
        except ValueError:
            bad.append("ORACLE python int() rejects accepted text")
    cp = field(cl, "pre")
    if s not in STD_PREFIXES:      # convertPrefixToInt: empty -> 0, otherwise convertToInt
        exp_p = "0" if s == "" else exp_i
        if cp != exp_p:
            bad.append("convertPrefixToInt: impl=%s expected=%s" % (cp, exp_p))
    cb = field(cl, "bdbl")
    cd, md = field(cl, "dbl"), field(ml, "cd")
    if cb == "1" and (mf[1] != "1" or cd == "no"):
        bad.append("canConvertToBasicDouble accepts what isCellMLBasicReal/convertToDouble do not")
    if cb == "0" and mf[1] == "1" and cd != "no":
        bad.append("canConvertToBasicDouble rejects a convertible basic real")
    if md == "rej":
        if cd != "no":
            bad.append("convertToDouble: impl converts rejected text to %s" % cd)
    elif md == "throw":
        bad.append("model predicts std::invalid_argument (recogniser lets digit-less text through)")
    else:
        v, zero = py_double(field(ml, "parts"))
        sub = (not zero) and abs(v) < DBL_MIN
        if cd == "no":
            if not (math.isinf(v) or sub):
                bad.append("convertToDouble: impl reports out of range, value is %r" % v)
        else:
            if math.isinf(v):
                bad.append("convertToDouble: impl=%s but value overflows" % cd)
            elif float(cd) != v and not sub:
                bad.append("convertToDouble value: impl=%s correctly rounded=%r" % (cd, v))
    rt = field(cl, "rt")
    if rt and rt.startswith("BAD"):
        if print_extreme(cd) and ctx.known_finding("C16-print-extreme-magnitude", "%r prints as %s which is read back as out of range" % (s, rt[4:])):
            pass
        else:
            bad.append("printed number is not read back equal to 15 digits: %s" % rt)
    return bad


def print_extreme(text):
    """matcher of known finding C16-print-extreme-magnitude"""
    try:
        v = float(text)
        w = float("%.15g" % v)
    except (ValueError, TypeError):
        return False
    return math.isinf(w) or (w != 0.0 and abs(w) < DBL_MIN)


def expected_position(pos_i, s, ml):
    """returns 'acc', 'rej' or 'either' from the model line"""
    posbits = field(ml, "pos")
    rec, rng_ok = posbits[2 * pos_i] == "1", posbits[2 * pos_i + 1] == "1"
    name = POS[pos_i]
    if name == "prefix" and s in STD_PREFIXES:
        return "acc"
    if name == "initial" and s == "x":
        return "acc"
    if not rec:
        return "rej"
    if not rng_ok:
        return "rej"
    if name in ("exponent", "multiplier", "cn", "cne_m"):
        parts = field(ml, "parts") if name in ("exponent", "multiplier") else field(ml, "sparts")
        if parts == "none":
            return "rej"
        v, zero = py_double(parts)
        if math.isinf(v):
            return "rej"
        if (not zero) and abs(v) < DBL_MIN:
            return "either"
    return "acc"


def run(ctx):
    quick = ctx.quick()
    ctx.proofs()
    ctx.assumptions += [
        "A-libc: std::stod/std::stoi throw invalid_argument iff no conversion, out_of_range on ERANGE; both correctly rounded (compared with python float/int on every accepted case)",
        "subnormal results: glibc may or may not set ERANGE; either outcome is accepted there",
        "initial_value is kept as text by the library (never converted), so only the recogniser is checked in that position",
    ]
    build = vf.build_repo("plain")
    drv = vf.compile_driver(build, os.path.join(vf.ROOT, "harness/c16_driver.cpp"))
    mdl = vf.ocaml_driver("num")

    # ---------------- direct calls
    n_enum = 4 if quick else 6
    strings = list(enum_strings(n_enum))
    n_exh = len(strings)
    # every byte value (the recognisers work on bytes; non-ASCII bytes must never count as digits)
    allbytes = [chr(b) for b in range(256)]
    strings += allbytes
    for t in ("%s1", "1%s", "1.%s", "1e%s", "-%s", "1%s2", "%s.5", "1e+%s"):
        strings += [t % ch for ch in allbytes]
    if not quick:
        strings += [a + b for a in allbytes for b in allbytes]
    else:
        strings += [a + b for a in allbytes for b in ctx.rng.sample(allbytes, 6)]
    strings += random_strings(ctx.rng, 3000 if quick else 100000)
    corpus = os.path.join(vf.ROOT, "corpus", "C16.txt")
    if os.path.exists(corpus):
        strings = [bytes.fromhex(l.strip()).decode("latin-1") for l in open(corpus) if l.strip()] + strings
    cf = os.path.join(ctx.workdir, "direct.cases")
    with open(cf, "w") as f:
        for s in strings:
            f.write(s.encode("latin-1", "replace").hex() + "\n")
    rc1, cl = vf.sh([drv, "direct", cf], timeout=3000)
    rc2, ml = vf.sh([mdl, cf], timeout=3000)
    cl, ml = cl.split("\n"), ml.split("\n")
    nontrivial = set()
    hist = {"accepted_real": 0, "accepted_int": 0, "rejected": 0, "out_of_range": 0}
    nbad = 0
    for i, s in enumerate(strings):
        c = cl[i] if i < len(cl) else "<missing>"
        m = ml[i] if i < len(ml) else "<missing>"
        if m == "<missing>" or not m:
            ctx.violation("model driver produced no line", "model_missing.json", {"string": s}, no_input=True)
            break
        bad = check_direct(ctx, s, c, m)
        mf = m.split()
        if mf[2] == "1":
            hist["accepted_real"] += 1
        if mf[0] == "1":
            hist["accepted_int"] += 1
        if mf[2] == "0" and mf[0] == "0":
            hist["rejected"] += 1
        if field(m, "int") == "range" or (field(c, "dbl") == "no" and mf[2] == "1"):
            hist["out_of_range"] += 1
        if s and (s[0] in "0123456789+-."):
            nontrivial.add(s)
        if bad and nbad < 5:
            nbad += 1
            ctx.violation("C16 direct: %r: %s" % (s, "; ".join(bad)), "direct_%d.json" % nbad,
                          {"mode": "direct", "string": s, "hex": s.encode("latin-1", "replace").hex(), "impl": c, "model": m, "problems": bad})
    ctx.cov["evaluations"] += len(strings)
    ctx.log("direct: %d strings (exhaustive to length %d: %d), %s" % (len(strings), n_enum, n_exh, hist))

    # ---------------- public positions
    n_pos = 3 if quick else 4
    pstrings = list(enum_strings(n_pos)) + STD_PREFIXES + ["x"] + random_strings(ctx.rng, 300 if quick else 8000)
    pstrings = [s for s in pstrings if all(32 <= ord(ch) < 127 for ch in s)]  # tab/newline are normalised by XML itself
    # non-ASCII text (valid UTF-8 in the document): look-alike digits, NBSP, accented letters
    for cp in [0x0663, 0x0660, 0xFF11, 0xFF10, 0x00A0, 0x00E9, 0x00B2, 0x2212, 0x0967, 0x1D7CF] + [ctx.rng.randrange(0x80, 0x2FFF) for _ in range(6 if quick else 60)]:
        ch = chr(cp)
        if 0xD800 <= cp < 0xE000:
            continue
        pstrings += [t % ch for t in ("%s", "1%s", "%s1", "1.5e%s", "-%s", "1.%s", "+%s")]
    pf = os.path.join(ctx.workdir, "pos.cases")
    with open(pf, "w") as f:
        for s in pstrings:
            f.write(s.encode().hex() + "\n")
    # shard over cores
    shards = []
    nsh = vf.NCPU
    import subprocess
    procs = []
    for k in range(nsh):
        part = pstrings[k::nsh]
        p = os.path.join(ctx.workdir, "pos.%d.cases" % k)
        with open(p, "w") as f:
            for s in part:
                f.write(s.encode().hex() + "\n")
        procs.append((part, subprocess.Popen([drv, "pos", p], stdout=subprocess.PIPE, stderr=subprocess.DEVNULL)))
    rc2, ml2 = vf.sh([mdl, pf], timeout=3000)
    ml2 = dict(zip(pstrings, ml2.split("\n")))
    npos = 0
    nbadp = 0
    poshist = {"acc": 0, "rej": 0}
    for part, pr in procs:
        out = pr.communicate()[0].decode("utf-8", "replace").split("\n")
        for i, s in enumerate(part):
            c = out[i] if i < len(out) else "<missing>"
            m = ml2[s]
            bad = []
            if not c.startswith("exponent="):
                bad.append("implementation %s in the pipeline" % c)
            else:
                toks = c.split()
                for pi, t in enumerate(toks):
                    name, res = t.split("=", 1)
                    npos += 1
                    if "RTBAD" in res and print_extreme(s) and ctx.known_finding(
                            "C16-print-extreme-magnitude", "%s=%r is printed as text the strict parser rejects" % (name, s)):
                        continue
                    if res.startswith("THROW") or "RTBAD" in res:
                        bad.append("%s: %s" % (name, res))
                        continue
                    exp = expected_position(pi, s, m)
                    got = res[:3]
                    poshist[got] = poshist.get(got, 0) + 1
                    if exp != "either" and got != exp:
                        bad.append("%s: impl=%s expected=%s" % (name, res, exp))
            if bad and nbadp < 5:
                nbadp += 1
                ctx.violation("C16 position: %r: %s" % (s, "; ".join(bad)), "pos_%d.json" % nbadp,
                              {"mode": "pos", "string": s, "hex": s.encode().hex(), "impl": c, "model": m, "problems": bad})
    ctx.cov["evaluations"] += npos
    ctx.log("positions: %d strings x %d positions, %s" % (len(pstrings), len(POS), poshist))
    ctx.cov["distinct_nontrivial"] = len(nontrivial)
    ctx.cov["exhaustive"] = True
    ctx.cov["rule"] = ("direct: all strings of length <= %d over the alphabet %s (%d strings, enumerated completely) plus seeded random/"
                       "boundary strings to length 40; every string goes through isCellMLInteger/BasicReal/Real, convertToInt/Double, "
                       "canConvertToBasicDouble, convertPrefixToInt and the print/read-back, and through the extracted model. positions: all strings of "
                       "length <= %d plus samples, in 8 public positions through Parser->Validator->Analyser->Generator->Printer. "
                       "non-trivial = first character can start a number; distinct by string" % (n_enum, "".join(SIGMA), n_exh, n_pos))
    ctx.cov["samples"] = [strings[n_exh // 3], strings[n_exh - 1], strings[n_exh + 5], strings[-1], pstrings[-1]]
    ctx.cov["input_distribution"] = {"direct": hist, "positions": poshist, "direct_exhaustive_len": n_enum,
                                     "position_exhaustive_len": n_pos}
    ctx.cov["traces_validated_against_impl"] = len(strings) + len(pstrings)


def replay(ctx, path):
    import json
    r = json.load(open(path))
    build = vf.build_repo("plain")
    drv = vf.compile_driver(build, os.path.join(vf.ROOT, "harness/c16_driver.cpp"))
    mdl = vf.ocaml_driver("num")
    cf = os.path.join(ctx.workdir, "replay.cases")
    open(cf, "w").write(r["hex"] + "\n")
    print("impl :", vf.sh([drv, r.get("mode", "direct"), cf])[1].strip())
    print("model:", vf.sh([mdl, cf])[1].strip())
