"""C09 — ownership invariants survive any API history; bad arguments never crash.

proofs : Properties_C09.v over the heap model HeapDefs.v (step_wf, history_wf, no_crash, bad_arg_noop, frame, ...)
tie    : op sequences (API scripts) through harness/c09_driver.cpp (ASan build, real library, snapshot after EVERY op)
         and through the extracted model (ocaml/heap/driver.ml); return tokens and snapshots compared exactly
search : the property's own oracle on the implementation: WF evaluated on the real objects after every op (C++),
         "affects exactly the target" on the real snapshots (python), and stage 2: the finite product of bad arguments
         over every public entry point, each call in a forked ASan child with a before/after dump
"""
import hashlib
import json
import os
import re
import subprocess
import sys

import vf

sys.path.insert(0, os.path.join(vf.ROOT, "gen"))
import c09_gen as g  # noqa: E402
import c09_badarg as ba  # noqa: E402
import c09_matrix as mx  # noqa: E402

DRIVER_SRC = os.path.join(vf.ROOT, "harness/c09_driver.cpp")
HDR = os.path.join(vf.ROOT, "harness/c09_badarg.hpp")


def drivers():
    build = vf.build_repo("asan")
    hh = hashlib.sha256(open(HDR, "rb").read()).hexdigest()[:12]
    drv = vf.compile_driver(build, DRIVER_SRC, extra_flags=("-DC09_HDR=" + hh,))
    mdl = vf.ocaml_driver("heap")
    return drv, mdl


ASAN_ENV = {"ASAN_OPTIONS": "detect_leaks=0:abort_on_error=0:exitcode=99", "UBSAN_OPTIONS": "halt_on_error=1:exitcode=98"}


def run_sharded(cmd_of, cases, workdir, tag, header, nsh=None):
    """run a driver over cases split in nsh files (header line first); returns the output lines in order"""
    nsh = nsh or vf.NCPU
    nsh = max(1, min(nsh, len(cases)))
    procs = []
    for k in range(nsh):
        part = cases[k::nsh]
        p = os.path.join(workdir, "%s.%d.cases" % (tag, k))
        with open(p, "w") as f:
            if header:
                f.write(header + "\n")
            f.write("\n".join(part) + "\n")
        env = dict(os.environ)
        env.update(ASAN_ENV)
        of = open(p + ".out", "wb")       # a file, not a pipe: the shards must not block on a full pipe
        procs.append((k, len(part), subprocess.Popen(cmd_of(p), stdout=of, stderr=subprocess.DEVNULL, env=env), of))
    out = [None] * len(cases)
    for k, n, pr, of in procs:
        pr.wait()
        of.close()
        lines = open(of.name, "rb").read().decode("utf-8", "replace").split("\n")
        os.remove(of.name)
        for i in range(n):
            out[k + i * nsh] = lines[i] if i < len(lines) and lines[i] != "" else "<missing>"
    return out


HEADER = "universe " + " ".join(g.UNIVERSE) + "".join("\nsetup %s %s" % (n, ";".join(ops)) for n, ops in g.START)


def split_case(case):
    """-> (tag, ops): tag is '' | '@<name>' | '@<n>;<the n set-up ops>'"""
    ops = [o for o in case.split(";") if o.strip()]
    tag = ""
    if ops and ops[0].startswith("@"):
        tag, ops = ops[0], ops[1:]
        if tag[1:].isdigit():
            n = int(tag[1:])
            tag, ops = ";".join([tag] + ops[:n]), ops[n:]
    return tag, ops


def join_case(tag, ops):
    return ";".join(([tag] if tag else []) + ops)


def setup_of(tag):
    if not tag:
        return []
    if tag[1:] in g.SETUPS:
        return list(g.SETUPS[tag[1:]])
    return tag.split(";")[1:]


# ------------------------------------------------------------------------------------------------ snapshots

REC = re.compile(r"\[([^\]]*)\]")


def parse_snapshot(text):
    """-> {slot: {'kind','name','parent', lists...}}"""
    out = {}
    for r in REC.findall(text):
        m = re.match(r'(\d+) (\w+) ("(?:[^"\\]|\\.)*"|-) (.*)$', r)
        if not m:
            continue
        d = {"kind": m.group(2), "name": m.group(3)}
        for k, v in re.findall(r"(\w+)=(\([^)]*\)|\S+)", m.group(4)):
            d[k] = v[1:-1].split() if v.startswith("(") else v
        out[int(m.group(1))] = d
    return out


LIST_OF = {"component": "comps", "variable": "vars", "reset": "resets", "units": "units"}


def frame_check(op, ret, P, Q):
    """'affects exactly the target', judged on the implementation's snapshots alone (no object is destroyed in the
    sequences this is applied to).  Returns a problem string or None."""
    t = op.split()
    cmd = t[0]
    changed = sorted(s for s in set(P) | set(Q) if P.get(s) != Q.get(s))
    if ret in ("false", "null"):
        return "refused call changed %s" % changed if changed else None
    if ret.startswith("ERR"):
        return None
    if cmd in g.QUERY_CMDS:
        extra = [s for s in changed if not (ret == "new%d" % s)]
        return "a query changed %s" % extra if extra else None

    def one_removed(before, after):
        """after = before minus exactly one position -> removed element"""
        if len(after) != len(before) - 1:
            return None
        for i in range(len(before)):
            if before[:i] + before[i + 1:] == after:
                return before[i]
        return None

    def fam(prefix):
        return cmd.startswith(prefix)

    def field():
        for key, f in (("component", "comps"), ("variable", "vars"), ("reset", "resets"), ("units", "units")):
            if key in cmd:
                return f
        return None

    if fam("removeall") and cmd != "removeallequivalences":
        k = int(t[1])
        f = field()
        kids = [int(x) for x in P[k][f]]
        if Q[k][f] != []:
            return "%s left children" % cmd
        for x in kids:
            if Q[x]["parent"] != "none":
                return "child %d of a cleared list keeps its parent" % x
        extra = [s for s in changed if s != k and s not in kids]
        return "objects %s changed" % extra if extra else None
    if fam("remove") and "equivalence" not in cmd and cmd != "removeunits" or fam("take"):
        f = field()
        holders = [s for s in changed if f in P[s] and P[s][f] != Q[s][f]]
        if len(holders) != 1:
            return "%d containers changed their list" % len(holders)
        k = holders[0]
        y = one_removed(P[k][f], Q[k][f])
        if y is None:
            return "list of %d did not lose exactly one entry" % k
        y = int(y)
        if Q[y]["parent"] != "none":
            return "removed child %d keeps parent %s" % (y, Q[y]["parent"])
        if cmd.endswith("_p") and t[2] != "null":
            a = int(t[2])
            deep = not (len(t) > 3 and t[3] == "false") and "component" in cmd
            listed = [s for s in P if f in P[s] and str(a) in P[s][f] and (s == int(t[1]) or deep)]
            if listed and y != a and (int(t[1]) in listed or deep):
                # the argument is a child where the call looks: it must be the one that goes
                if int(t[1]) in listed:
                    return "argument %d is a child of %d but %d was removed" % (a, int(t[1]), y)
        if fam("take") and ret not in (str(y), "new%d" % y):
            return "take returned %s, list lost %d" % (ret, y)
        extra = [s for s in changed if s not in (k, y)]
        return "objects %s changed" % extra if extra else None
    if fam("add") and "equivalence" not in cmd:
        k, x = int(t[1]), int(t[2])
        f = field()
        p = P[x]["parent"]
        if Q[x]["parent"] != str(k):
            return "added child does not name the container as parent"
        if p == str(k):
            return None      # re-add to the current parent: outside the claim
        if Q[k][f] != P[k][f] + [str(x)]:
            return "container list is not the old list plus the child"
        allowed = {k, x}
        if p not in ("none", "ext"):
            p = int(p)
            allowed.add(p)
            if one_removed(P[p][f], Q[p][f]) != str(x):
                return "old parent %d did not lose exactly the moved child" % p
        extra = [s for s in changed if s not in allowed]
        return "objects %s changed" % extra if extra else None
    if fam("replace"):
        f = field()
        c = int(t[-2]) if t[-1] in ("true", "false") else int(t[-1])
        k = Q[c]["parent"]
        if k in ("none", "ext"):
            return "replacement has no parent afterwards"
        k = int(k)
        if str(c) not in Q[k][f]:
            return "replacement not listed by its new parent"
        i = Q[k][f].index(str(c))
        allowed = {k, c}
        p = P[c]["parent"]
        if p not in ("none", "ext"):
            allowed.add(int(p))
        gone = [x for x in P[k][f] if x not in Q[k][f]]
        for x in gone:
            allowed.add(int(x))
            if Q[int(x)]["parent"] != "none":
                return "replaced child keeps its parent"
        if len(gone) > 1:
            return "more than one child left the container"
        extra = [s for s in changed if s not in allowed]
        return "objects %s changed" % extra if extra else None
    if "equivalence" in cmd:
        vs = {int(x) for x in t[1:3] if x.isdigit()}
        if cmd == "removeallequivalences":
            vs |= {int(x) for x in P[int(t[1])]["eq"]}
        for s in changed:
            if s not in vs:
                return "object %d changed" % s
            pp, qq = dict(P[s]), dict(Q[s])
            pp.pop("eq"), qq.pop("eq")
            if pp != qq:
                return "a field other than the equivalences of %d changed" % s
        return None
    if cmd in ("setunits_p", "removeunits", "setvariable", "settestvariable"):
        extra = [s for s in changed if s != int(t[1])]
        return "objects %s changed" % extra if extra else None
    return None


# ------------------------------------------------------------------------------------------------ stage 1

def first_diff(drv, mdl, ctx, case, tag="one", header=None):
    """run one case in full mode on both sides; -> (index of first differing step or None, impl steps, model steps)"""
    HEADER = header or globals()["HEADER"]
    p = os.path.join(ctx.workdir, tag + ".cases")
    open(p, "w").write(HEADER + "\n" + case + "\n")
    rc, a = vf.sh([drv, "full", p], timeout=120, env=ASAN_ENV)
    rc, b = vf.sh([mdl, p, "full"], timeout=120)
    a = a.strip().split("\n")[-1] if a.strip() else "<missing>"
    b = b.strip().split("\n")[-1] if b.strip() else "<missing>"
    if a.startswith("CRASH") or a.startswith("TIMEOUT") or a.startswith("THROW"):
        # the child died: find the op by running every prefix
        setup, ops = split_case(case)
        open(p, "w").write(HEADER + "\n" + "\n".join(join_case(setup, ops[:n]) for n in range(1, len(ops) + 1)) + "\n")
        rc, pa = vf.sh([drv, "full", p], timeout=600, env=ASAN_ENV)
        pa = [l for l in pa.split("\n") if l.strip()]
        good = ""
        for l in pa:
            if l.startswith("CRASH") or l.startswith("TIMEOUT") or l.startswith("THROW"):
                a = (good + " ;; " if good else "") + l
                break
            good = l
    xs, ys = a.split(" ;; "), b.split(" ;; ")
    for i in range(max(len(xs), len(ys))):
        x = xs[i] if i < len(xs) else "<missing>"
        y = ys[i] if i < len(ys) else "<missing>"
        xh, _, xsn = x.partition(" | ")
        yh, _, ysn = y.partition(" | ")
        if xh.split()[:1] != yh.split()[:1] or xsn != ysn:
            return i, xs, ys
        if "carve" in yh.split()[1:2]:
            break
        if xh.split()[1:2] != ["ok"]:
            return i, xs, ys
    return None, xs, ys


def shrink(drv, mdl, ctx, case):
    setup, ops = split_case(case)
    cur = ops
    i, xs, ys = first_diff(drv, mdl, ctx, join_case(setup, cur), "shrink")
    if i is None:
        return case, None, xs, ys
    cur = cur[:i + 1]
    changed = True
    while changed and len(cur) > 1:
        changed = False
        for j in range(len(cur) - 1):
            cand = cur[:j] + cur[j + 1:]
            if g.uses_released([o for o in setup_of(setup) if o.startswith("release")] + cand):
                continue
            k, _, _ = first_diff(drv, mdl, ctx, join_case(setup, cand), "shrink")
            if k is not None:
                cur = cand[:k + 1]
                changed = True
                break
    i, xs, ys = first_diff(drv, mdl, ctx, join_case(setup, cur), "shrink")
    return join_case(setup, cur), i, xs, ys


def stage1(ctx, drv, mdl):
    quick = ctx.quick()
    R, F = g.reduced_ops(), g.full_ops()
    cands = []
    corpus = os.path.join(vf.ROOT, "corpus", "C09.txt")
    if os.path.exists(corpus):
        cands += [l.strip() for l in open(corpus) if l.strip() and not l.startswith("#")]
    n_corpus = len(cands)
    exh = {}
    pure = []           # sequences over R only: the histories among which representatives of the state classes are chosen
    for name, setup in g.START:
        a = list(g.exhaustive(name, R, 2, F))              # one reduced op, then every op form (mutators and queries)
        exh["%s: R x F" % name] = len(a)
        cands += a
        n = 3 if (not quick or name == "tree") else 2
        R3 = g.reduced_ops3() if quick else R          # quick: 52 of the 68 ops at length 3
        a = [join_case("@" + name, [])] + [c for k in range(1, n + 1) for c in g.exhaustive(name, R3 if k == 3 else R, k)]
        exh["%s: R^<=%d%s" % (name, n, " (length 3 over %d ops)" % len(R3) if n == 3 and quick else "")] = len(a)
        cands += a
        pure += a
        if not quick and name not in ("orphans", "residues"):
            a = list(g.exhaustive(name, g.reduced_ops4(), 4))
            exh["%s: R4^4" % name] = len(a)
            cands += a
            pure += a
    n_exh = len(cands) - n_corpus
    nrand = 400 if quick else 6000
    rnd = []
    for i in range(nrand):
        name, setup = g.START[i % len(g.START)]
        rnd.append(g.random_sequence(ctx.rng, name, ctx.rng.choice([10, 25, 60, 60])))
    ctx.log("stage 1: %d candidate sequences (%d exhaustive, %d random), |R|=%d |F|=%d" % (len(cands) + nrand, n_exh, nrand, len(R), len(F)))

    final, seen = [], set()
    model_line, recut = {}, []
    stat = {"carve": 0}

    def absorb(cs, lines):
        """cut at the carve-out op (the model says where a sequence leaves the claim), dedupe"""
        for c, l in zip(cs, lines):
            t = l.split()
            if not split_case(c)[1]:
                continue                      # the bare start state: only a candidate representative
            if len(t) >= 3 and t[1].startswith("carve=") and t[1] != "carve=-":
                tag, ops = split_case(c)
                c = join_case(tag, ops[:int(t[1][6:]) + 1])
                stat["carve"] += 1
                if c not in seen:
                    seen.add(c)
                    final.append(c)
                    recut.append(c)
            elif c not in seen:
                seen.add(c)
                final.append(c)
                model_line[c] = l

    # pass 1a: the model on the base candidates; it also names the state class each history ends in
    m1 = run_sharded(lambda p: [mdl, p, "seq"], cands, ctx.workdir, "p1", HEADER)
    absorb(cands, m1)
    # representatives of the state classes (combinations of residues: expired equivalence entry, owner destroyed by kind,
    # reset variable / units outside any model, emptied list, moved entity, object held only by its parent, ...), per
    # start state the shortest history; from each of them every op form of F: the bad-argument product runs from
    # history-made states, and the model predicts every answer
    pure_set = set(pure)
    reps = {}
    for c, l in zip(cands, m1):
        t = l.split()
        if c in pure_set and len(t) >= 5 and t[1] == "carve=-" and "CRASH" not in t[0]:
            key = (split_case(c)[0], t[3])
            if key not in reps or len(c) < len(reps[key]):
                reps[key] = c
    extra = []
    for key in sorted(reps):
        tag, ops = split_case(reps[key])
        rel = [o for o in setup_of(tag) if o.startswith("release")]
        extra += [join_case(tag, ops + [f]) for f in F if not g.uses_released(rel + ops + [f])]
    exh["state-class representatives x F"] = len(extra)
    extra += rnd
    absorb(extra, run_sharded(lambda p: [mdl, p, "seq"], extra, ctx.workdir, "p1b", HEADER))
    classes = sorted({k[1][4:] for k in reps})
    ctx.log("stage 1: %d state classes (%d representatives), %d sequences cut at the carve-out op, %d distinct sequences" %
            (len(classes), len(reps), stat["carve"], len(final)))
    cands = cands + extra

    impl = run_sharded(lambda p: [drv, "seq", p], final, ctx.workdir, "p2c", HEADER)
    for c, l in zip(recut, run_sharded(lambda p: [mdl, p, "seq"], recut, ctx.workdir, "p2m", HEADER) if recut else []):
        model_line[c] = l
    modl = [model_line[c] for c in final]
    bad = []
    nbadarg = 0
    nontrivial = 0
    hist = {"ops": 0, "succeeded": 0, "refused": 0, "carve_out_final_op": 0, "len": {}}
    opk = {}
    for c, x, y in zip(final, impl, modl):
        xs, ys = x.split(), y.split()
        setup, ops = split_case(c)
        hist["len"][len(ops)] = hist["len"].get(len(ops), 0) + 1
        ok = len(xs) == 3 and len(ys) == 5 and xs[0] == ys[0] and xs[2] == ys[2]
        if ok:
            nbadarg += int(ys[4][4:])
            carve = None if ys[1] == "carve=-" else int(ys[1][6:])
            if xs[1] != "wf=ok":
                k = int(xs[1][3:].split(":")[0])
                if carve is None or k < carve:
                    ok = False
            rets = xs[0].split(",")
            hist["ops"] += len(rets)
            good = sum(1 for r in rets if r not in ("false", "null") and not r.startswith("ERR"))
            hist["succeeded"] += good
            hist["refused"] += len(rets) - good
            if carve is not None:
                hist["carve_out_final_op"] += 1
            if good:
                nontrivial += 1
            for o in ops:
                opk[o.split()[0]] = opk.get(o.split()[0], 0) + 1
        if not ok:
            bad.append((c, x, y))
    ctx.cov["evaluations"] += len(final)
    ctx.log("stage 1: %d sequences through both sides, %d disagree or break WF" % (len(final), len(bad)))
    for n, (c, x, y) in enumerate(bad[:4]):
        small, i, xs, ys = shrink(drv, mdl, ctx, c)
        setup, ops = split_case(small)
        what = "implementation and model disagree"
        if i is not None and i < len(xs) and i < len(ys):
            xh, yh = xs[i].split(" | ")[0].split(), ys[i].split(" | ")[0].split()
            if xh[:1] == yh[:1] and xs[i].partition(" | ")[2] == ys[i].partition(" | ")[2]:
                what = "ownership invariant broken on the implementation (%s)" % " ".join(xh[1:2])
            elif xh and (xh[0].startswith("CRASH") or xh[0].startswith("TIMEOUT")):
                what = "implementation crashes (%s)" % xh[0]
        ctx.violation("C09 history: %s after %r" % (what, ";".join(ops)), "history_%d.json" % (n + 1),
                      {"mode": "seq", "universe": g.UNIVERSE, "case": small, "original_case": c, "first_bad_step": i,
                       "ops": ops, "impl_steps": xs, "model_steps": ys, "impl_digest_line": x, "model_digest_line": y})

    # "affects exactly the target": judged on the implementation's own snapshots, sequences without destruction
    def no_destruction(c):
        return "release" not in c and not any(o.startswith("release") for o in setup_of(split_case(c)[0]))
    fr = [c for c in final if no_destruction(c)][: (3000 if quick else 40000)]
    fr += [c for c in final[-nrand:] if no_destruction(c)]

    def lead(c):     # report one op more, so that the state before the first op of the sequence is seen too
        tag, ops = split_case(c)
        setup = setup_of(tag)
        if not setup:
            return join_case("", ["addcomponent 0 null"] + ops)
        return join_case(";".join(["@%d" % (len(setup) - 1)] + setup[:-1]), [setup[-1]] + ops)
    fr = [lead(c) for c in fr]
    full = run_sharded(lambda p: [drv, "full", p], fr, ctx.workdir, "p3", HEADER)
    nfr = 0
    nbad = 0
    for c, x in zip(fr, full):
        setup, ops = split_case(c)
        steps = x.split(" ;; ")
        # state before the first reported op = replay of the set-up: take it from a run of the set-up alone
        P = None
        for o, st in zip(ops, steps):
            head, _, snap = st.partition(" | ")
            Q = parse_snapshot(snap)
            ret = head.split()[0]
            if P is not None and head.split()[1:2] == ["ok"]:
                nfr += 1
                why = None
                try:
                    why = frame_check(o, ret, P, Q)
                except (KeyError, ValueError, IndexError) as e:
                    why = "frame oracle could not read the snapshots: %r" % (e,)
                if why and nbad < 3:
                    nbad += 1
                    ctx.violation("C09 frame: %r: %s" % (o, why), "frame_%d.json" % nbad,
                                  {"mode": "seq", "universe": g.UNIVERSE, "case": c, "op": o, "ret": ret, "problem": why,
                                   "before": P, "after": Q})
            if head.split()[1:2] != ["ok"]:
                break
            P = Q
    ctx.cov["evaluations"] += nfr
    ctx.log("stage 1: frame oracle on %d op applications of %d sequences" % (nfr, len(fr)))
    return {"candidates": len(cands), "exhaustive_sets": exh, "random": nrand, "distinct_sequences": len(final),
            "nontrivial": nontrivial, "hist": hist, "op_kinds": opk, "frame_checked_ops": nfr,
            "state_classes": classes, "class_representatives": {"%s %s" % k: v for k, v in sorted(reps.items())},
            "bad_argument_applications": nbadarg,
            "samples": [final[len(final) // 3], final[-1]]}


def stage1_matrix(ctx, drv, mdl):
    """list-position case splits of the model (gen/c09_matrix.py): op x target position x residue kind x residue position"""
    universe, cs, na = mx.cases()
    header = "universe " + " ".join(universe)
    cases = [c for c, _ in cs]
    impl = run_sharded(lambda p: [drv, "seq", p], cases, ctx.workdir, "mxc", header)
    modl = run_sharded(lambda p: [mdl, p, "seq"], cases, ctx.workdir, "mxm", header)
    cells = {}
    nbad = 0
    for (c, cell), x, y in zip(cs, impl, modl):
        key = " | ".join(cell)
        cells[key] = cells.get(key, 0) + 1
        xs, ys = x.split(), y.split()
        ok = len(xs) == 3 and len(ys) == 5 and xs[0] == ys[0] and xs[2] == ys[2] and xs[1] == "wf=ok" and ys[1] == "carve=-"
        if not ok and nbad < 3:
            nbad += 1
            i, fx, fy = first_diff(drv, mdl, ctx, c, "mx1", header)
            ctx.violation("C09 list position (%s): implementation and model disagree, or the invariant breaks, after %r" % (key, c),
                          "position_%d.json" % nbad,
                          {"mode": "seq", "universe": universe, "case": c, "cell": cell, "first_bad_step": i, "ops": c.split(";"),
                           "impl_steps": fx, "model_steps": fy, "impl_digest_line": x, "model_digest_line": y})
    ctx.cov["evaluations"] += len(cases)
    ctx.log("stage 1: %d list-position histories in %d cells (op x target position x residue kind x residue position)" % (len(cases), len(cells)))
    return {"histories": len(cases), "cells": cells, "cells_that_cannot_exist": ["%s: %s" % x for x in na], "universe": " ".join(universe)}


def run(ctx):
    ctx.proofs()
    ctx.assumptions += [
        "A-mem: shared_ptr/weak_ptr semantics = reachability from the caller's handles over strong references (HeapDefs.gc); "
        "use of freed memory is not modelled: AddressSanitizer in the driver is the only observer",
        "structural equality (equals) is an oracle parameter in the theorems; the extracted model uses HeapDefs.seqf, compared with the library on every by-pointer lookup of the run",
        "stack exhaustion is modelled as fuel exhaustion of has_ancestor / the encapsulation search (fuel = number of objects + 1)",
        "stage 2 (services): entry points are enumerated and called, not modelled",
    ]
    drv, mdl = drivers()
    s1 = stage1(ctx, drv, mdl)
    s1m = stage1_matrix(ctx, drv, mdl)
    s2 = ba.stage2(ctx, drv)
    ctx.cov["distinct_nontrivial"] = s1["nontrivial"] + s2["nontrivial"]
    ctx.cov["exhaustive"] = True
    ctx.cov["rule"] = ("stage 1: op sequences (mutators AND queries) over the universe %s from the start states %s; exhaustive: every reduced op of R "
                       "followed by every op form of F, all sequences of at most n ops of R (n per start state, see input_distribution), and from "
                       "the shortest history of every state class (combination of residues: expired equivalence entry, destroyed owner by kind, "
                       "reset variable / units outside any model, emptied list, moved entity, object held only by its parent, live equivalence; "
                       "classes computed from the extracted model's states) every op form of F incl. null / one past the end / unknown name / not-a-child "
                       "arguments; random to length 60; bad_argument_applications = ops the model's bad_arg classifies as refusals (theorem C09_bad_arg_noop), "
                       "all confirmed on the library; "
                       "after EVERY op: return token + full parent/children/equivalence snapshot compared exactly with the model, WF evaluated "
                       "on the real objects, frame oracle on the real snapshots.  non-trivial = at least one op of the sequence was performed "
                       "(not refused); distinct by sequence text after cutting at the carve-out op.  stage 2: see bad_arguments"
                       % (" ".join(g.UNIVERSE), [n for n, _ in g.START]))
    ctx.cov["samples"] = s1["samples"] + s2["samples"]
    ctx.cov["input_distribution"] = {"histories": {k: s1[k] for k in ("candidates", "exhaustive_sets", "random", "distinct_sequences", "hist", "op_kinds", "frame_checked_ops",
                                                                      "state_classes", "class_representatives", "bad_argument_applications")},
                                     "bad_arguments": s2["dist"]}
    ctx.cov["input_distribution"]["histories"]["start_states"] = {n: ";".join(ops) for n, ops in g.START}
    ctx.cov["input_distribution"]["list_positions"] = s1m
    ctx.cov["traces_validated_against_impl"] = s1["distinct_sequences"] + s1m["histories"]
    ctx.cov["entry_points"] = s2["entry_points"]


def replay(ctx, path):
    r = json.load(open(path))
    drv, mdl = drivers()
    if r.get("mode") == "seq":
        hdr = "universe " + " ".join(r["universe"]) if r.get("universe") and list(r["universe"]) != list(g.UNIVERSE) else None
        i, xs, ys = first_diff(drv, mdl, ctx, r["case"], "replay", hdr)
        setup, ops = split_case(r["case"])
        print("case :", r["case"])
        for k, o in enumerate(ops):
            print("op %d: %s" % (k, o))
            print("  impl :", xs[k] if k < len(xs) else "<missing>")
            print("  model:", ys[k] if k < len(ys) else "<missing>")
        print("first bad step:", i)
    else:
        ba.replay(ctx, drv, r)
