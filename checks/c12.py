"""C12 — operations are pure: no hidden state, no mutation of their input.

proofs : Properties_C12.v (state machine of libxml2's blank-handling flag; what the flag can change — captured math
         strings, and the validator on ci/cn elements holding comments — and what it cannot; issue-list resets from the
         regenerated entry-point table; frame of Printer / Validator / Analyser / Generator / flattenModel; the
         regenerated list of writers of process-global state is the modelled one)
tie    : histories of service calls run on the fresh build (harness/c12_driver.cpp) and on the extracted model
         (ocaml/global/driver.ml): the flag after EVERY step (read through xmlKeepBlanksDefault), the captured math
         strings, the sensitivity verdict, the unexpected-text / unexpected-element / empty-element issue counts and the
         validator's ci / cn verdicts must agree exactly
search : the property's own oracle on the implementation: the same call before / after a noise call, on a fresh
         instance and twice on the same instance gives the same canonical result (dumps, issues, text, code); inputs
         and library models are unchanged; a call after a failing call reports only its own issues.  Differences are
         accepted only inside the classes of known_findings.d/C12.json.
"""
import hashlib
import json
import os
import random
import re
import subprocess

import vf
import c12_gen as cg
import script_gen as sg

DRV = "harness/c12_driver.cpp"
RES_DIRS = ["/tests/resources"]


# ------------------------------------------------------------------------------------------------ inputs
class Inputs:
    def __init__(self, workdir):
        self.rows = []          # (id, kind, bytes)
        self.meta = {}          # id -> dict
        self.workdir = workdir

    def add(self, kind, data, **meta):
        i = "%s%d" % ({"doc": "D", "script": "S", "dir": "P"}[kind], len(self.rows))
        self.rows.append((i, kind, data))
        meta["kind"] = kind
        self.meta[i] = meta
        return i

    def write(self, path):
        with open(path, "w") as f:
            for i, k, d in self.rows:
                f.write("%s\t%s\t%s\n" % (i, k, d.hex()))


def inp_dir(inp, did):
    for i, k, d in inp.rows:
        if i == did:
            return d.decode()
    return ""


def parse_out(line):
    """driver line -> [(step name, {k: v})] or None for CRASH / THROW / TIMEOUT"""
    if not line or line.startswith(("CRASH", "THROW", "TIMEOUT")) or line == "<missing>":
        return None
    out = []
    i, n = 0, len(line)
    while i < n:
        j = line.find("{", i)
        if j < 0:
            break
        name = line[i:j].strip()
        depth, k = 1, j + 1
        while k < n and depth:
            if line[k] == "{":
                depth += 1
            elif line[k] == "}":
                depth -= 1
            k += 1
        body = line[j + 1:k - 1]
        d = {}
        # fields: key=value separated by spaces; a value may be a {...} group containing spaces
        p = 0
        while p < len(body):
            while p < len(body) and body[p] == " ":
                p += 1
            e = body.find("=", p)
            if e < 0:
                break
            key = body[p:e]
            q = e + 1
            if q < len(body) and body[q] == "{":
                dd, q2 = 1, q + 1
                while q2 < len(body) and dd:
                    dd += body[q2] == "{"
                    dd -= body[q2] == "}"
                    q2 += 1
                d[key] = body[q:q2]
                p = q2
            else:
                q2 = body.find(" ", q)
                q2 = len(body) if q2 < 0 else q2
                d[key] = body[q:q2]
                p = q2
        out.append((name, d))
        i = k
    return out


def run_driver(drv, table, cases, workdir, tag, verbose=False, timeout=3000):
    """run the case list sharded over the cores; returns the output lines in order"""
    n = len(cases)
    nsh = max(1, min(vf.NCPU, n // 4 or 1))
    procs = []
    for k in range(nsh):
        part = cases[k::nsh]
        p = os.path.join(workdir, "%s.%d.cases" % (tag, k))
        with open(p, "w") as f:
            f.write("\n".join(part) + "\n")
        cmd = [drv, "run", table, p] + (["--verbose"] if verbose else [])
        # output to a file: a pipe read shard after shard would stall the other shards once it fills up
        of = open(p + ".out", "wb")
        procs.append((k, len(part), subprocess.Popen(cmd, stdout=of, stderr=subprocess.DEVNULL), of, p + ".out"))
    res = [None] * n
    for k, cnt, pr, of, opath in procs:
        try:
            pr.wait(timeout=timeout)
        except subprocess.TimeoutExpired:
            pr.kill()
        of.close()
        out = open(opath, "rb").read().decode("utf-8", "replace").split("\n")
        for j in range(cnt):
            res[k + j * nsh] = out[j] if j < len(out) and out[j] != "" else "<missing>"
    return res


def resource_docs(rng, count, max_bytes=120000):
    files = []
    for d in RES_DIRS:
        top = vf.REPO + d
        for root, ds, fs in os.walk(top):
            ds.sort()
            for f in sorted(fs):
                if f.endswith((".cellml", ".xml")):
                    p = os.path.join(root, f)
                    if os.path.getsize(p) <= max_bytes:
                        files.append(p)
    rng.shuffle(files)
    return files[:count]


def make_inputs(ctx, drv, quick):
    rng = ctx.rng
    inp = Inputs(ctx.workdir)
    n_models = 40 if quick else 400
    # ---- A. valid models built through the API, math strings decorated with blanks / comments
    scripts = []
    for k in range(n_models):
        lines, info = sg.random_model_script(rng, valid=True, p_math=0.8, n_resets=(0, 2), p_import=0.0,
                                             n_components=(1, 4), vars_per_component=(1, 3))
        level = rng.choice(["none", "blank", "blank", "comment", "token"])
        kw = dict(p_blank=0.0, p_comment=0.0, p_token=0.0)
        if level == "blank":
            kw = dict(p_blank=0.6, p_comment=0.0, p_token=0.0)
        elif level == "comment":
            kw = dict(p_blank=0.4, p_comment=0.3, p_token=0.0)
        elif level == "token":
            kw = dict(p_blank=0.4, p_comment=0.2, p_token=0.7)
        st = {}
        lines2, maths = cg.decorate_script(lines, rng, stats=st, **kw)
        mstr = cg.script_math_strings(maths)
        forests = [cg.math_forest(s) for s in mstr]
        sid = inp.add("script", ";".join(lines2).encode(), level=level, maths=mstr, forests=forests,
                      tokc=st.get("token_shapes", 0) > 0, cls="genmodel",
                      sens=any(cg.has_removable_blank(t) for f in forests if f for t in f))
        scripts.append(sid)
    # printed text of each model (pre-pass)
    pre = ["G:1 build:%s:m print:r:m:t validate:v:m" % s for s in scripts]
    tpath = os.path.join(ctx.workdir, "pre.table")
    inp.write(tpath)
    outs = run_driver(drv, tpath, pre, ctx.workdir, "pre")
    docs = []
    for s, line in zip(scripts, outs):
        po = parse_out(line)
        if po is None:
            raise vf.BuildError("pre-pass failed on a generated model: %s" % line[:200])
        d = dict(po)
        text = bytes.fromhex(d["print"].get("X", ""))
        inp.meta[s]["valid_issues"] = d["validate"]["I"]
        if not text:
            continue
        tree, info = cg.tree_of_bytes(text)
        if tree is None:
            continue
        # ---- B. documents: the printed model, re-decorated
        for variant in range(2):
            t = tree
            if rng.random() < 0.3:
                t = cg.strip_formatting(t)
            dirty = rng.random() < 0.3
            st = {}
            tok = 0.5 if inp.meta[s]["tokc"] else (0.15 if rng.random() < 0.2 else 0.0)
            t = cg.decorate(t, rng, p_blank=rng.choice([0.0, 0.3, 0.6]), p_comment=rng.choice([0.0, 0.0, 0.2]),
                            p_text=0.08 if dirty else 0.0, p_elem=0.08 if dirty else 0.0, p_token=tok, stats=st)
            if rng.random() < 0.15:
                t = ("E", t[1], t[2], [a for a in t[3] if a[0] != "name"], t[4])
            data = cg.render_doc(t, declaration=rng.random() < 0.8)
            docs.append(inp.add("doc", data, tree=t, exact=True, counts=True, cls="gendoc", src=s, dirty=dirty,
                                tokc=st.get("token_shapes", 0) > 0 or inp.meta[s]["tokc"],
                                sens=cg.has_removable_blank(t)))
    # ---- C. documents of the repository's test resources (oracle; modelled when inside the tree fragment)
    res = []
    for p in resource_docs(rng, 30 if quick else 250):
        data = open(p, "rb").read()
        tree, info = cg.tree_of_bytes(data)
        is20 = tree is not None and tree[1] == cg.CELLML
        res.append(inp.add("doc", data, tree=tree if is20 else None, exact=False, counts=False, cls="resource",
                           path=p[len(vf.REPO):], tokc=True, sens=None))
    # ---- D. analysable models (mathmodel_gen: ODE / algebraic / NLA systems over several components)
    import mathmodel_gen as mg
    ana = []
    for k in range(12 if quick else 120):
        try:
            r = mg.generate(rng.randrange(1 << 30))
        except Exception:
            continue
        data = r["xml"].encode("utf-8")
        tree, info = cg.tree_of_bytes(data)
        ana.append(inp.add("doc", data, tree=tree, exact=bool(info and info["exact"]) if tree else False, counts=False,
                           cls="anadoc", tokc=False, sens=cg.has_removable_blank(tree) if tree else None))
    for k in range(8 if quick else 60):
        data = cg.consistent_document(rng)
        tree, info = cg.tree_of_bytes(data)
        ana.append(inp.add("doc", data, tree=tree, exact=True, counts=False, cls="consistent", tokc=False,
                           sens=cg.has_removable_blank(tree)))
    # ---- E. import graphs with math (files on disk under the work directory)
    graphs = []
    gdir = os.path.join(ctx.workdir, "imp")
    os.makedirs(gdir, exist_ok=True)
    for k in range(10 if quick else 60):
        kind = cg.GRAPH_KINDS[k % len(cg.GRAPH_KINDS)]
        files, origin, info = cg.import_graph(rng, kind)
        d = os.path.join(gdir, "g%d" % k)
        os.makedirs(d, exist_ok=True)
        for old in os.listdir(d):
            os.remove(os.path.join(d, old))
        trees = {}
        for name, data in files.items():
            with open(os.path.join(d, name), "wb") as f:
                f.write(data)
            trees[name] = cg.tree_of_bytes(data)[0]
        did = inp.add("dir", (d + "/").encode())
        oid = inp.add("doc", files[origin], tree=trees[origin], exact=True, counts=False, cls="origin", tokc=False,
                      sens=cg.has_removable_blank(trees[origin]))
        graphs.append(dict(dir=did, origin=oid, trees=trees, info=info))
    # ---- G. inputs drawn to INTERFERE with another input on the same service instance
    near = {}        # doc id -> id of a near-copy (same names everywhere, other definitions)
    attr1x = []      # 2.0 documents carrying 1.x-only / unknown attributes
    for d in list(docs) + list(ana):
        t = inp.meta[d].get("tree")
        if t is None:
            continue
        for mild in ((True, False) if d in ana else (rng.random() < 0.6,)):
            t2 = cg.near_copy(t, rng, mild=mild)
            nid = inp.add("doc", cg.render_doc(t2), tree=t2, exact=inp.meta[d].get("exact", False), counts=False,
                          cls="nearcopy", of=d, tokc=inp.meta[d].get("tokc"), sens=cg.has_removable_blank(t2))
            near.setdefault(d, []).append(nid)
        if inp.meta[d].get("cls") == "gendoc" and not inp.meta[d].get("dirty") and rng.random() < 0.4:
            t3 = cg.with_1x_attributes(t, rng)
            attr1x.append(inp.add("doc", cg.render_doc(t3), tree=t3, exact=True, counts=False, cls="attr1x",
                                  tokc=inp.meta[d].get("tokc"), sens=cg.has_removable_blank(t3)))
    onex = [inp.add("doc", cg.onex_document(rng, v), tree=None, exact=False, counts=False, cls="onex", tokc=False, sens=None)
            for v in (["1.0", "1.1"] * (3 if quick else 15))]
    for rid in res:
        data = [dd for i, k, dd in inp.rows if i == rid][0]
        if b"cellml/1.0#" in data or b"cellml/1.1#" in data:
            onex.append(rid)
    warn_docs = [inp.add("doc", b, tree=cg.tree_of_bytes(b)[0], exact=True, counts=False, cls="warndoc", tokc=False, sens=False)
                 for b in cg.WARNING_DOCS]
    empty_doc = inp.add("doc", b"", tree=None, exact=False, counts=False, cls="emptydoc", tokc=False, sens=None)
    # ---- H. API-built models in every "lazily fixable" state a service might be tempted to repair in place
    lazy = []
    for k in range(30 if quick else 300):
        lines, info = sg.random_model_script(rng, valid=True, p_math=0.6, n_resets=(0, 2), p_import=rng.choice([0.0, 0.0, 0.3]),
                                             link_units=0.0, fix_interfaces=rng.random() < 0.5, p_units_by_pointer=rng.choice([0.0, 0.5, 1.0]),
                                             p_id=rng.choice([0.0, 0.1, 0.5]), n_components=(1, 4), vars_per_component=(1, 3),
                                             n_units=(1, 3), p_initial=0.6)
        n = info["nslots"]
        extra, feats = [], []
        vs, cs = info["variables"], [c for c in info["components"] if c not in info["imported"]]
        if rng.random() < 0.5:
            extra += ["component %d %s" % (n, sg.S("empty_c")), "addcomponent %d %d" % (info["model"], n)]
            n += 1
            feats.append("empty-component")
        if rng.random() < 0.5:
            extra += ["units %d %s" % (n, sg.S("empty_u")), "addunits %d %d" % (info["model"], n)]
            n += 1
            feats.append("empty-units")
        if vs and rng.random() < 0.5:
            v = rng.choice(vs)
            extra += ["reset %d" % n, "setvariable %d %d" % (n, v), "settestvariable %d %d" % (n, v),
                      "addreset %d %d" % (info["var_owner"][v], n)]
            n += 1
            feats.append("reset-without-order")
        if len(vs) > 1 and rng.random() < 0.5:
            v, w2 = rng.sample(vs, 2)
            extra.append("setinitialvalue_v %d %d" % (v, w2))
            feats.append("initial-value-by-reference")
        if vs and rng.random() < 0.5:
            v = rng.choice(vs)
            extra += ["units %d %s" % (n, sg.S("foreign_u")), "addunit_ref %d %s" % (n, sg.S("second")), "setunits_p %d %d" % (v, n)]
            n += 1
            feats.append("foreign-units-object")
        if vs and rng.random() < 0.5:
            extra.append("setunits_n %d %s" % (rng.choice(vs), sg.S(rng.choice(info["units_names"] or ["second"]))))
            feats.append("units-by-name")
        if vs and rng.random() < 0.4:
            extra.append("removeinterfacetype %d" % rng.choice(vs))
            feats.append("interface-removed")
        # the final fixvariableinterfaces / linkunits of the generator (if any) come before the extras: the extras stay unfixed
        lazy.append(inp.add("script", ";".join(lines + extra).encode(), cls="lazy", maths=None, forests=None, tokc=True, sens=None,
                            feats=feats + (["imports"] if info["imported"] else [])))
    # ---- F. bad inputs
    bad_docs = [inp.add("doc", b, tree=None, exact=False, counts=False, cls="baddoc", tokc=True, sens=None) for b in
                [b"<model xmlns=\"http://www.cellml.org/cellml/2.0#\" name=\"m\"><component></model>",
                 b"<html/>", b"not xml at all",
                 b"<model xmlns=\"http://www.cellml.org/cellml/2.0#\" name=\"b\"><component/><units/><foo/>text</model>"]]
    bad_scripts = []
    for k in range(6 if quick else 40):
        lines, info = sg.random_model_script(rng, valid=False, p_math=0.7, p_import=0.0, p_bad=0.4)
        bad_scripts.append(inp.add("script", ";".join(lines).encode(), cls="badmodel", maths=None, forests=None, tokc=True, sens=None))
    tpath = os.path.join(ctx.workdir, "pre2.table")
    inp.write(tpath)
    outs = run_driver(drv, tpath, ["G:1 build:%s:m validate:v:m analyse:a:m print:r:m" % b for b in bad_scripts], ctx.workdir, "pre2")
    bad_scripts = [b for b, o in zip(bad_scripts, outs) if parse_out(o) is not None] or bad_scripts[:1]
    badmath = inp.add("script", ";".join(["model 0 %s" % sg.S("pm"), "component 1 %s" % sg.S("c"), "addcomponent 0 1",
                                          "setmath 1 %s" % sg.S("<math><a></math>")]).encode(),
                      cls="badmath", maths=None, forests=None, tokc=True, sens=None)
    libw = inp.add("script", ";".join(cg.library_write_script(sg.S)).encode(), cls="libwrite", maths=None, forests=None,
                   tokc=False, sens=None)
    inp.graphs = graphs
    inp.graph_by_dirname = {os.path.basename(inp_dir(inp, g["dir"]).rstrip("/")): g for g in graphs}
    doc_of_script = {}
    for d in docs:
        doc_of_script.setdefault(inp.meta[d]["src"], []).append(d)
    tpath = os.path.join(ctx.workdir, "pre3.table")
    inp.write(tpath)
    outs = run_driver(drv, tpath, ["G:1 deep:1 build:%s:m validate:v:m analyse:a:m print:r:m flatten:i:m:f" % b for b in lazy], ctx.workdir, "pre3")
    lazy = [b for b, o in zip(lazy, outs) if parse_out(o) is not None]     # (a model that kills a service on its own is C01's / C09's)
    return inp, dict(lazy=lazy, near=near, attr1x=attr1x, onex=onex, warn_docs=warn_docs, empty_doc=empty_doc, doc_of_script=doc_of_script,
                     scripts=scripts, docs=docs, res=res, ana=ana, graphs=graphs, bad_docs=bad_docs,
                     bad_scripts=bad_scripts, badmath=badmath, libw=libw)


# ------------------------------------------------------------------------------------------------ cases
class Case:
    """a history: steps = [(cpp step text, model step spec, group key or None)]
    model step spec: ('P', doc id) ('R', src) ('V', src) ('A', src) ('I', graph) ('F',) ('O',) ('C',) ('S', b) ('N',) or None
    where src = ('script', id) | ('parsed', model slot)"""

    def __init__(self, kind, g0):
        self.kind = kind
        self.g0 = g0
        self.steps = [("G:%d" % g0, None, None)]
        self.noise = (0, 0)      # [first, last) step indexes of the noise
        self.same_instance_noise = False
        self.info = {}

    def add(self, cpp, mspec, group=None):
        self.steps.append((cpp, mspec, group))
        return len(self.steps) - 1

    def text(self):
        return " ".join(s[0] for s in self.steps)


class Builder:
    def __init__(self, rng, inp, sets):
        self.rng, self.inp, self.sets = rng, inp, sets
        self.n = 0

    def fresh(self, p):
        self.n += 1
        return "%s%d" % (p, self.n)

    # -- model sources
    def model_source(self, c, want=None, no_tok=False):
        """puts a model into a new slot; returns (slot, src spec, input id).  no_tok: only inputs without the ci / cn
        comment shapes (the analyser dereferences a null pointer on a ci whose first child is a comment: C01's finding)"""
        r = self.rng
        pool = want or r.choice(["script", "script", "doc", "doc", "ana", "res"])
        m = self.fresh("m")
        ok = (lambda i: not self.inp.meta[i].get("tokc")) if no_tok else (lambda i: True)
        if pool == "script":
            s = r.choice([x for x in self.sets["scripts"] if ok(x)])
            c.add("build:%s:%s:ms" % (s, m), ("O",))
            return m, ("slot", m), s
        ids = {"doc": self.sets["docs"], "ana": self.sets["ana"], "res": self.sets["res"]}[pool]
        d = r.choice([x for x in ids if ok(x)] or ids)
        c.add("parse:%s:%s:%s:ms" % (self.fresh("p"), d, m), ("P", d))
        return m, ("slot", m), d

    # -- noise
    def noise(self, c, inst, target_model, target_input):
        """a noise call: returns nothing; marks c.same_instance_noise when it uses a service slot of `inst`"""
        r = self.rng
        kind = r.choice(["print", "print", "print", "print", "parse", "parse", "validate", "analyse", "generate", "resolve",
                         "flatten", "annot_assign", "annot_ids", "touch", "set0", "set1", "clone", "printnull",
                         "same", "same", "same", "same"])
        c.info["noise"] = kind
        if kind == "same" and inst:
            # the SAME service instance is used on another input
            svc, slot = r.choice(sorted(inst.items()))
            c.same_instance_noise = True
            c.info["noise"] = "same:" + svc
            if svc == "parse":
                d = r.choice(self.sets["docs"] + self.sets["bad_docs"] + self.sets["res"])
                c.add("parse:%s:%s:%s" % (slot, d, self.fresh("m")), ("P", d))
            elif svc == "print":
                m, src, _ = self.model_source(c)
                c.add("print:%s:%s" % (slot, m), ("R", src))
            elif svc == "validate":
                m, src, _ = self.model_source(c)
                c.add("validate:%s:%s" % (slot, m), ("V", src))
            elif svc == "analyse":
                m, src, _ = self.model_source(c, r.choice(["ana", "script"]), no_tok=True)
                c.add("analyse:%s:%s" % (slot, m), ("A", src))
            elif svc == "generate":
                m, src, _ = self.model_source(c, "ana")
                a = self.fresh("a")
                c.add("analyse:%s:%s" % (a, m), ("A", src))
                c.add("generate:%s:%s:%s" % (slot, a, r.choice(["c", "py"])), ("O",))
            elif svc == "importer":
                g = r.choice(self.sets["graphs"])
                m = self.fresh("m")
                c.add("parse:%s:%s:%s" % (self.fresh("p"), g["origin"], m), ("P", g["origin"]))
                c.add("resolve:%s:%s:%s" % (slot, m, g["dir"]), ("I", g))
            return
        if kind == "same":
            kind = "print"
        if kind == "print":
            m, src, _ = self.model_source(c)
            c.add("print:%s:%s%s" % (self.fresh("r"), m, r.choice(["", ":auto"])), ("R", src))
        elif kind == "printnull":
            c.add("print:%s:nosuchmodel" % self.fresh("r"), ("N",))
        elif kind == "parse":
            d = r.choice(self.sets["docs"] + self.sets["res"] + self.sets["ana"] + self.sets["bad_docs"])
            c.add("parse:%s:%s:%s" % (self.fresh(r.choice("pq")), d, self.fresh("m")), ("P", d))
        elif kind == "validate":
            m, src, _ = self.model_source(c)
            c.add("validate:%s:%s" % (self.fresh("v"), m), ("V", src))
        elif kind in ("analyse", "generate"):
            m, src, _ = self.model_source(c, r.choice(["ana", "script"]), no_tok=True)
            a = self.fresh("a")
            c.add("analyse:%s:%s" % (a, m), ("A", src))
            if kind == "generate":
                c.add("generate:%s:%s:%s" % (self.fresh("g"), a, r.choice(["c", "py"])), ("O",))
        elif kind in ("resolve", "flatten"):
            g = r.choice(self.sets["graphs"])
            m, i = self.fresh("m"), self.fresh("i")
            c.add("parse:%s:%s:%s" % (self.fresh("p"), g["origin"], m), ("P", g["origin"]))
            c.add("resolve:%s:%s:%s" % (i, m, g["dir"]), ("I", g))
            if kind == "flatten":
                c.add("flatten:%s:%s:%s" % (i, m, self.fresh("f")), ("F",))
        elif kind == "annot_assign":
            m, src, _ = self.model_source(c, "script")
            c.add("annot:%s:%s:assign" % (self.fresh("n"), m), ("O",))
        elif kind == "annot_ids":
            c.add("annot:%s:%s:ids" % (self.fresh("n"), target_model or "nosuchmodel"), ("O",))
        elif kind == "touch":
            c.add("touch", ("C",))
        elif kind in ("set0", "set1"):
            c.add("set:%s" % kind[-1], ("S", int(kind[-1])))
        elif kind == "clone":
            if target_model:
                m2 = self.fresh("m")
                c.add("clone:%s:%s" % (target_model, m2), ("O",))
                c.add("equals:%s:%s" % (target_model, m2), ("O",))
            else:
                c.add("touch", ("C",))

    def with_noise(self, c, inst, target_model, target_input):
        a = len(c.steps)
        for _ in range(self.rng.choice([1, 1, 1, 2])):
            self.noise(c, inst, target_model, target_input)
        c.noise = (a, len(c.steps))

    # -- triples
    def triple(self):
        r = self.rng
        op = r.choice(["parse", "parse", "parse", "print", "parseprint", "validate", "validate", "analyse", "generate",
                       "resolve", "flatten"])
        c = Case(op, r.randrange(2))
        if op == "parse":
            d = r.choice(self.sets["docs"] * 3 + self.sets["res"] + self.sets["ana"])
            mflag = ":m" if self.inp.meta[d].get("exact") else ""
            strict = r.choice("ppq")
            p0, p1 = self.fresh(strict), self.fresh(strict)
            grp = ("parse", d, strict)
            m0 = self.fresh("m")
            c.add("parse:%s:%s:%s%s" % (p0, d, m0, mflag), ("P", d), grp)
            self.with_noise(c, {"parse": p0}, m0, d)
            c.add("parse:%s:%s:%s%s" % (p1, d, self.fresh("m"), mflag), ("P", d), grp)
            c.add("parse:%s:%s:%s%s" % (p0, d, self.fresh("m"), mflag), ("P", d), grp)
            c.add("parse:%s:%s:%s%s" % (p0, d, self.fresh("m"), mflag), ("P", d), grp)
            c.info["input"] = d
        elif op == "parseprint":
            d = r.choice(self.sets["docs"] * 3 + self.sets["ana"])
            grp = ("print", d)
            m0, m1 = self.fresh("m"), self.fresh("m")
            c.add("parse:%s:%s:%s:ms" % (self.fresh("p"), d, m0), ("P", d))
            c.add("print:%s:%s" % (self.fresh("r"), m0), ("R", ("slot", m0)), grp)
            self.with_noise(c, {}, m0, d)
            c.add("parse:%s:%s:%s:ms" % (self.fresh("p"), d, m1), ("P", d))
            c.add("print:%s:%s" % (self.fresh("r"), m1), ("R", ("slot", m1)), grp)
            c.info["input"] = d
        elif op in ("print", "validate"):
            m, src, x = self.model_source(c, r.choice(["script", "script", "doc", "res"] if op == "validate" else ["script", "doc", "ana"]))
            pre = {"print": "r", "validate": "v"}[op]
            ms = {"print": "R", "validate": "V"}[op]
            auto = ":auto" if (op == "print" and r.random() < 0.5) else ""
            s0, s1 = self.fresh(pre), self.fresh(pre)
            grp = (op, x, auto)
            c.add("%s:%s:%s%s" % (op, s0, m, auto), (ms, src), grp)
            self.with_noise(c, {op: s0}, m, x)
            c.add("%s:%s:%s%s" % (op, s1, m, auto), (ms, src), grp)
            c.add("%s:%s:%s%s" % (op, s0, m, auto), (ms, src), grp)
            c.add("%s:%s:%s%s" % (op, s0, m, auto), (ms, src), grp)
            c.info["input"] = x
        elif op in ("analyse", "generate"):
            m, src, x = self.model_source(c, r.choice(["ana", "ana", "script"]), no_tok=True)
            prof = r.choice(["c", "py"])
            a0, a1, g0, g1 = self.fresh("a"), self.fresh("a"), self.fresh("g"), self.fresh("g")
            ga, gg = ("analyse", x), ("generate", x, prof)

            def go(a, g):
                c.add("analyse:%s:%s" % (a, m), ("A", src), ga)
                if op == "generate":
                    c.add("generate:%s:%s:%s" % (g, a, prof), ("O",), gg)
            go(a0, g0)
            self.with_noise(c, {"analyse": a0, "generate": g0} if op == "generate" else {"analyse": a0}, m, x)
            go(a1, g1)
            go(a0, g0)
            go(a0, g0)
            c.info["input"] = x
        else:   # resolve / flatten
            g = r.choice(self.sets["graphs"])
            strict = r.choice("iij")
            i0, i1 = self.fresh(strict), self.fresh(strict)
            m0, m1 = self.fresh("m"), self.fresh("m")
            gr, gf = ("resolve", g["origin"], strict), ("flatten", g["origin"], strict)
            c.info["graph"] = g["info"]
            c.info["input"] = g["origin"]
            c.add("parse:%s:%s:%s" % (self.fresh("p"), g["origin"], m0), ("P", g["origin"]))
            c.add("resolve:%s:%s:%s" % (i0, m0, g["dir"]), ("I", g), gr + ("first", i0))
            if op == "flatten":
                c.add("flatten:%s:%s:%s" % (i0, m0, self.fresh("f")), ("F",), gf + (i0,))
            self.with_noise(c, {"importer": i0}, m0, g["origin"])
            c.add("parse:%s:%s:%s" % (self.fresh("p"), g["origin"], m1), ("P", g["origin"]))
            c.add("resolve:%s:%s:%s" % (i1, m1, g["dir"]), ("I", g), gr + ("first", i1))
            if op == "flatten":
                c.add("flatten:%s:%s:%s" % (i1, m1, self.fresh("f")), ("F",), gf + (i1,))
            c.add("resolve:%s:%s:%s" % (i0, m0, g["dir"]), ("I", g), gr + ("again", i0))
            if op == "flatten":
                c.add("flatten:%s:%s:%s" % (i0, m0, self.fresh("f")), ("F",), gf + (i0,))
                c.add("flatten:%s:%s:%s" % (i0, m0, self.fresh("f")), ("F",), gf + (i0,))
        return c

    # -- op(Y) then op(X) on the SAME instance, against op(X) on a FRESH instance; Y is drawn to interfere with X
    def interfering_doc(self, x):
        """a document Y for the document X: (category, id)"""
        r = self.rng
        cat = r.choice(["near", "near", "near", "onex", "onex", "attr1x", "bad", "empty", "warn", "other"])
        if cat == "near" and self.sets["near"].get(x):
            return cat, r.choice(self.sets["near"][x])
        if cat == "onex":
            return cat, r.choice(self.sets["onex"])
        if cat == "attr1x" and self.sets["attr1x"]:
            return cat, r.choice(self.sets["attr1x"])
        if cat == "bad":
            return cat, r.choice(self.sets["bad_docs"])
        if cat == "empty":
            return cat, self.sets["empty_doc"]
        if cat == "warn":
            return cat, r.choice(self.sets["warn_docs"])
        return "other", r.choice(self.sets["docs"] + self.sets["ana"])

    def interfering_model(self, c, x_doc, allow_invalid=True, no_tok=False):
        """puts a model Y that interferes with the document / script X into a new slot; returns (category, slot, model spec source)"""
        r = self.rng
        cat = r.choice(["near", "near", "near", "onex", "invalid", "null", "badmath", "other"])
        m = self.fresh("m")
        if cat == "near" and x_doc is not None and self.sets["near"].get(x_doc):
            d = r.choice(self.sets["near"][x_doc])
            c.add("parse:%s:%s:%s:ms" % (self.fresh("p"), d, m), ("P", d))
            return cat, m
        if cat == "onex":
            d = r.choice(self.sets["onex"])
            c.add("parse:%s:%s:%s:ms" % (self.fresh("q"), d, m), ("P", d))
            return cat, m
        if cat == "invalid" and allow_invalid:
            c.add("build:%s:%s:ms" % (r.choice(self.sets["bad_scripts"]), m), ("O",))
            return cat, m
        if cat == "null":
            return cat, "nosuchmodel"
        if cat == "badmath":
            c.add("build:%s:%s:ms" % (self.sets["badmath"], m), ("O",))
            return cat, m
        d = r.choice([x for x in self.sets["docs"] + self.sets["ana"] if not (no_tok and self.inp.meta[x].get("tokc"))])
        c.add("parse:%s:%s:%s:ms" % (self.fresh("p"), d, m), ("P", d))
        return "other", m

    def x_model(self, c, pools):
        """the input X as a model in a new slot: (slot, document id to draw near-copies from, input id)"""
        r = self.rng
        pool = r.choice(pools)
        m = self.fresh("m")
        if pool == "script":
            s = r.choice([x for x in self.sets["scripts"] if not self.inp.meta[x].get("tokc")])
            c.add("build:%s:%s:ms" % (s, m), ("O",))
            ds = self.sets["doc_of_script"].get(s) or [None]
            return m, r.choice(ds), s
        ids = [x for x in self.sets[{"doc": "docs", "ana": "ana"}[pool]] if not self.inp.meta[x].get("tokc")]
        d = r.choice(ids)
        c.add("parse:%s:%s:%s:ms" % (self.fresh("p"), d, m), ("P", d))
        return m, d, d

    def interfere(self):
        r = self.rng
        svc = r.choice(["parse_p", "parse_q", "parse_q", "validate", "analyse", "analyse", "generate", "print", "importer",
                        "annot_assign", "annot_ids"])
        c = Case("interfere:" + svc, r.randrange(2))
        c.same_instance_noise = True
        sync = lambda: c.add("set:1", ("S", 1))       # both runs of op(X) start from the same value of libxml2's flag
        if svc in ("parse_p", "parse_q"):
            kind = svc[-1]
            x = r.choice(self.sets["docs"] * 2 + self.sets["attr1x"] * 3 + self.sets["ana"] + (self.sets["onex"] if kind == "q" else []))
            cat, y = self.interfering_doc(x)
            pa, pb = self.fresh(kind), self.fresh(kind)
            grp = ("strict", "parse", x)
            mflag = ":m" if self.inp.meta[x].get("exact") else ""
            c.add("parse:%s:%s:%s" % (pa, y, self.fresh("m")), ("P", y))
            sync()
            c.add("parse:%s:%s:%s%s" % (pa, x, self.fresh("m"), mflag), ("P", x), grp)
            sync()
            c.add("parse:%s:%s:%s%s" % (pb, x, self.fresh("m"), mflag), ("P", x), grp)
            c.info.update(input=x, interferer=cat)
        elif svc in ("validate", "print"):
            mx, xdoc, x = self.x_model(c, ["script", "doc", "doc"])
            cat, my = self.interfering_model(c, xdoc)
            pre, ms = {"validate": ("v", "V"), "print": ("r", "R")}[svc]
            sa, sb = self.fresh(pre), self.fresh(pre)
            auto = ":auto" if (svc == "print" and r.random() < 0.5) else ""
            grp = ("strict", svc, x)
            c.add("%s:%s:%s%s" % (svc, sa, my, auto), None if my == "nosuchmodel" or cat in ("invalid", "badmath", "onex") else (ms, ("slot", my)))
            sync()
            c.add("%s:%s:%s%s" % (svc, sa, mx, auto), (ms, ("slot", mx)), grp)
            sync()
            c.add("%s:%s:%s%s" % (svc, sb, mx, auto), (ms, ("slot", mx)), grp)
            c.info.update(input=x, interferer=cat)
        elif svc in ("analyse", "generate"):
            mx, xdoc, x = self.x_model(c, ["ana", "ana", "ana", "script"])
            cat, my = self.interfering_model(c, xdoc, no_tok=True)
            ext = r.random() < 0.3 and my != "nosuchmodel"
            aa, ab = self.fresh("a"), self.fresh("a")
            ga, gb = self.fresh("g"), self.fresh("g")
            prof = r.choice(["c", "py"])
            oprof = r.choice(["c", "py"])
            grp, ggrp = ("strict", "analyse", x), ("strict", "generate", x)
            if ext:     # an external variable of the model Y: documented state, so the fresh analyser gets it too
                c.add("extvar:%s:%s" % (aa, my), ("O",))
                c.add("extvar:%s:%s" % (ab, my), ("O",))
                cat += "+extvar"
            c.add("analyse:%s:%s" % (aa, my), None if my == "nosuchmodel" or not cat.startswith(("near", "other")) else ("A", ("slot", my)))
            if svc == "generate":
                c.add("generate:%s:%s:%s" % (ga, aa, oprof), ("O",))
            sync()
            c.add("analyse:%s:%s" % (aa, mx), ("A", ("slot", mx)), grp)
            if svc == "generate":
                c.add("generate:%s:%s:%s" % (ga, aa, prof), ("O",), ggrp)
            sync()
            c.add("analyse:%s:%s" % (ab, mx), ("A", ("slot", mx)), grp)
            if svc == "generate":
                c.add("generate:%s:%s:%s" % (gb, ab, prof), ("O",), ggrp)
            c.info.update(input=x, interferer=cat)
        elif svc == "importer":
            gx = r.choice(self.sets["graphs"])
            same_kind = [g for g in self.sets["graphs"] if g is not gx and g["info"]["kind"] == gx["info"]["kind"]]
            gy = r.choice(same_kind) if same_kind and r.random() < 0.7 else r.choice([g for g in self.sets["graphs"] if g is not gx])
            kind = r.choice("ij")
            ia, ib = self.fresh(kind), self.fresh(kind)
            do_flat = r.random() < 0.6
            my, m1, m2 = self.fresh("m"), self.fresh("m"), self.fresh("m")
            gr, gf = ("strict", "resolve", gx["origin"]), ("strict", "flatten", gx["origin"])
            c.add("parse:%s:%s:%s" % (self.fresh("p"), gy["origin"], my), ("P", gy["origin"]))
            c.add("resolve:%s:%s:%s" % (ia, my, gy["dir"]), ("I", gy))
            if do_flat:
                c.add("flatten:%s:%s:%s" % (ia, my, self.fresh("f")), ("F",))
            for imp_, m in ((ia, m1), (ib, m2)):
                sync()
                c.add("parse:%s:%s:%s" % (self.fresh("p"), gx["origin"], m), ("P", gx["origin"]))
                c.add("resolve:%s:%s:%s" % (imp_, m, gx["dir"]), ("I", gx), gr)
                if do_flat:
                    c.add("flatten:%s:%s:%s" % (imp_, m, self.fresh("f")), ("F",), gf)
            c.info.update(input=gx["origin"], interferer="graph:" + gy["info"]["kind"], graph=gx["info"], same_graph=gy is gx)
        else:
            op = svc.split("_")[1]
            mx, xdoc, x = self.x_model(c, ["script", "doc"])
            cat, my = self.interfering_model(c, xdoc)
            na, nb = self.fresh("n"), self.fresh("n")
            grp = ("strict", "annot_" + op, x)
            if op == "assign":
                c1, c2 = self.fresh("m"), self.fresh("m")
                c.add("clone:%s:%s" % (mx, c1), ("O",))
                c.add("clone:%s:%s" % (mx, c2), ("O",))
                c.add("annot:%s:%s:assign" % (na, my), ("O",))
                c.add("annot:%s:%s:assign" % (na, c1), ("O",), grp)
                c.add("annot:%s:%s:assign" % (nb, c2), ("O",), grp)
            else:
                c.add("annot:%s:%s:ids" % (na, my), ("O",))
                c.add("annot:%s:%s:ids" % (na, mx), ("O",), grp)
                c.add("annot:%s:%s:ids" % (nb, mx), ("O",), grp)
            c.info.update(input=x, interferer=cat)
        return c

    # -- every "leaves its input unchanged" service on API-built models in lazily fixable states
    def immut_case(self):
        r = self.rng
        c = Case("immutability", r.randrange(2))
        x = r.choice(self.sets["lazy"])
        m = self.fresh("m")
        c.add("deep:1", ("O",))
        c.add("build:%s:%s:ms" % (x, m), ("O",))
        c.info.update(input=x, features=self.inp.meta[x].get("feats"))
        ops = r.sample(["print", "printauto", "validate", "analyse", "generate", "flatten", "flatten", "resolve", "annot", "clone"], r.randint(2, 4))
        for op in ops:
            if op in ("print", "printauto"):
                c.add("print:%s:%s%s" % (self.fresh("r"), m, ":auto" if op == "printauto" else ""), ("R", ("slot", m)))
            elif op == "validate":
                c.add("validate:%s:%s" % (self.fresh("v"), m), ("V", ("slot", m)))
            elif op in ("analyse", "generate"):
                a = self.fresh("a")
                c.add("analyse:%s:%s" % (a, m), ("A", ("slot", m)))
                if op == "generate":
                    c.add("generate:%s:%s:%s" % (self.fresh("g"), a, r.choice(["c", "py"])), ("O",))
            elif op == "flatten":
                c.add("flatten:%s:%s:%s" % (self.fresh("i"), m, self.fresh("f")), ("F",))
            elif op == "resolve":
                g = r.choice(self.sets["graphs"])
                c.add("resolve:%s:%s:%s" % (self.fresh("i"), m, g["dir"]), None)
            elif op == "annot":
                c.add("annot:%s:%s:ids" % (self.fresh("n"), m), ("O",))
            else:
                m2 = self.fresh("m")
                c.add("clone:%s:%s" % (m, m2), ("O",))
                c.add("equals:%s:%s" % (m, m2), ("O",))
        return c

    def reset_case(self):
        """(bad input, good input) on one instance, then the good input on a fresh instance"""
        r = self.rng
        op = r.choice(["parse", "validate", "analyse", "print", "resolve", "flatten", "annot"])
        c = Case("reset:" + op, r.randrange(2))
        grp = ("reset", op)
        if op == "parse":
            bad = r.choice(self.sets["bad_docs"])
            good = r.choice(self.sets["docs"] + self.sets["ana"])
            p0, p1 = self.fresh("p"), self.fresh("p")
            c.add("parse:%s:%s:%s" % (p0, bad, self.fresh("m")), ("P", bad))
            c.add("parse:%s:%s:%s" % (p0, good, self.fresh("m")), ("P", good), grp)
            c.add("parse:%s:%s:%s" % (p1, good, self.fresh("m")), ("P", good), grp)
        elif op in ("validate", "analyse", "print"):
            pre = {"validate": "v", "analyse": "a", "print": "r"}[op]
            ms = {"validate": "V", "analyse": "A", "print": "R"}[op]
            s0, s1 = self.fresh(pre), self.fresh(pre)
            if op == "print":
                badm = self.fresh("m")
                c.add("build:%s:%s" % (self.sets["badmath"], badm), None)
                c.add("print:%s:%s" % (s0, badm), None)
            elif r.random() < 0.3:
                c.add("%s:%s:nosuchmodel" % (op, s0), ("O",))
            else:
                badm = self.fresh("m")
                c.add("build:%s:%s" % (r.choice(self.sets["bad_scripts"]), badm), ("O",))
                c.add("%s:%s:%s" % (op, s0, badm), None)
            m, src, x = self.model_source(c, r.choice(["script", "ana"]) if op != "print" else "script", no_tok=True)
            c.add("%s:%s:%s" % (op, s0, m), (ms, src), grp)
            c.add("%s:%s:%s" % (op, s1, m), (ms, src), grp)
        elif op in ("resolve", "flatten"):
            g = r.choice(self.sets["graphs"])
            i0, i1 = self.fresh("i"), self.fresh("i")
            c.add("%s:%s:nosuchmodel%s" % (op, i0, ":x" if op == "resolve" else ":fx"), ("O",))
            m0 = self.fresh("m")
            c.add("parse:%s:%s:%s" % (self.fresh("p"), g["origin"], m0), ("P", g["origin"]))
            c.info["graph"] = g["info"]
            if op == "resolve":
                c.add("resolve:%s:%s:%s" % (i0, m0, g["dir"]), ("I", g), grp)
                c.add("resolve:%s:%s:%s" % (i1, m0, g["dir"]), ("I", g), grp)
            else:
                c.add("resolve:%s:%s:%s" % (i0, m0, g["dir"]), ("I", g))
                c.add("flatten:%s:%s:%s" % (i0, m0, self.fresh("f")), ("F",), grp)
                c.add("flatten:%s:nosuchmodel:fx" % i0, ("O",))
                c.add("flatten:%s:%s:%s" % (i0, m0, self.fresh("f")), ("F",), grp)
        else:
            n0, n1 = self.fresh("n"), self.fresh("n")
            c.add("annot:%s:nosuchmodel:assign" % n0, ("O",))
            m, src, x = self.model_source(c, "script")
            c.add("annot:%s:%s:ids" % (n0, m), ("O",), grp)
            c.add("annot:%s:%s:ids" % (n1, m), ("O",), grp)
        return c

    def special_cases(self):
        """fixed histories: the K19 witness, the analyser's previous result, the library write, the error handler"""
        out = []
        d = self.sets["docs"][0]
        c = Case("k19", 1)
        grp = ("parse", d, "p")
        c.add("parse:pa:%s:ma:m" % d, ("P", d), grp)
        c.add("build:%s:mb:ms" % self.sets["scripts"][0], ("O",))
        c.add("print:ra:mb", ("R", ("slot", "mb")))
        c.add("parse:pb:%s:mc:m" % d, ("P", d), grp)
        c.noise = (2, 4)
        c.info["input"] = d
        out.append(c)
        for a in self.sets["ana"][:3]:
            c = Case("analyser-previous", 1)
            c.add("parse:pa:%s:ma:ms" % a, ("P", a))
            c.add("analyse:aa:ma", ("A", ("slot", "ma")))
            c.add("build:%s:mb" % self.sets["bad_scripts"][0], ("O",))
            c.add("analyse:aa:mb", None)
            c.add("analyse:aa:nosuchmodel", ("O",))
            c.info["input"] = a
            out.append(c)
        c = Case("library-write", 1)
        c.add("build:%s:ma" % self.sets["libw"], None)
        c.add("flatten:ia:ma:fa", ("F",))
        out.append(c)
        c = Case("error-handler", 1)
        c.add("hset", ("O",))
        c.add("hget", ("O",))
        c.add("parse:pa:%s:ma" % self.sets["docs"][0], ("P", self.sets["docs"][0]))
        c.add("hget", ("O",))
        out.append(c)
        return out


# ------------------------------------------------------------------------------------------------ the model side
FOREST_DEFS = {}     # sha1 of an MS field -> encoded forests (or None when outside the fragment)


def forests_ref(ms_field):
    key = hashlib.sha1(ms_field.encode()).hexdigest()[:16]
    if key not in FOREST_DEFS:
        strings = [bytes.fromhex(x).decode("utf-8", "replace") for x in ms_field.split(",") if x]
        forests = [cg.math_forest(x) for x in strings]
        FOREST_DEFS[key] = None if any(f is None for f in forests) else cg.enc_forests(forests)
    return None if FOREST_DEFS[key] is None else "@" + key


def model_case(case, outs, inp):
    """the history as the extracted model reads it, or None when a step is outside the modelled fragment"""
    toks = [str(case.g0), None]
    n = 0
    slot_ms = {}    # C++ model slot -> its math strings in the order the validator reads them (reported with :ms)
    kinds = []      # per C++ step (after G): model kind letter or '' (resync steps add an extra S)
    for idx, (cpp, ms, grp) in enumerate(case.steps):
        if idx == 0:
            continue
        if "MS" in outs[idx][1]:
            f = cpp.split(":")
            slot = f[3] if f[0] == "parse" else f[2]
            slot_ms[slot] = outs[idx][1]["MS"]
        if ms is None:
            return None
        k = ms[0]
        if k == "P":
            tree = inp.meta[ms[1]].get("tree")
            if tree is None:
                return None
            toks.append("P #" + ms[1])
        elif k in ("R", "V", "A"):
            src = ms[1]
            if src[1] not in slot_ms:
                return None
            fs = forests_ref(slot_ms[src[1]])
            if fs is None:
                return None
            if k == "R":
                toks.append("R " + fs)
            elif k == "V":
                toks.append("V 0 " + fs)
            else:
                toks.append("A 1 0 " + fs)
        elif k == "I":
            g = ms[1]
            d = dict(outs[idx][1]) if outs else {}
            before = set()
            # keys present before = those of the previous resolve of the same importer in this case
            imp_slot = cpp.split(":")[1]
            for j in range(idx - 1, 0, -1):
                if case.steps[j][0].startswith("resolve:%s:" % imp_slot):
                    before = set(outs[j][1].get("LK", "").split(",")) - {""}
                    break
                if case.steps[j][0].startswith("removeall:%s" % imp_slot):
                    break
            new = [x for x in d.get("LK", "").split(",") if x and x not in before]
            refs = []
            for key in new:
                gdir, _, name = key.rpartition("/")
                gg = inp.graph_by_dirname.get(gdir)
                if gg is None or gg["trees"].get(name) is None:
                    return None
                refs.append("#%s:%s" % (gg["dir"], name))
            # the documents parsed are modelled; the math strings of imported components that resolveImports re-reads (also from
            # cached files) are not known here: the model's flag is a lower bound, then re-synchronised on the observed value
            toks.append("I %d %s" % (len(refs), " ".join(refs)))
            toks.append("S %s" % d.get("g", "0"))
            kinds.append("I")
            kinds.append("sync")
            n += 2
            continue
        elif k == "F":
            # partially modelled: the flag can only stay or be set; re-synchronise on the observed value
            toks.append("F 0")
            toks.append("S %s" % outs[idx][1].get("g", "0"))
            n += 1
            kinds.append("F")
            kinds.append("sync")
            n += 1
            continue
        elif k == "O":
            toks.append("O")
        elif k == "C":
            toks.append("C")
        elif k == "S":
            toks.append("S %d" % ms[1])
        elif k == "N":
            toks.append("N")
        else:
            return None
        kinds.append(k)
        n += 1
    toks[1] = str(n)
    return " ".join(toks), kinds


def parse_model_line(line):
    steps = [s.strip() for s in line.split(" | ")]
    out = []
    for s in steps:
        f = s.split(" ")
        d = {}
        for t in f[1:]:
            if "=" in t:
                k, v = t.split("=", 1)
                d[k] = v
        out.append((f[0], d))
    return out


# ------------------------------------------------------------------------------------------------ the oracle
FIELDS = {"parse": ["H", "Hn", "I", "LV"], "print": ["T", "I", "LV"], "validate": ["I", "LV"], "analyse": ["I", "LV", "A", "ty"],
          "generate": ["C"], "resolve": ["R", "I", "LV", "LHn"], "flatten": ["F", "Fn", "I", "LV"],
          "annot_ids": ["ids", "dup", "n", "I", "LV"], "annot_assign": ["ok", "H", "Hi", "I", "LV"], "annot": ["ids", "I", "LV"]}
# same-instance / fresh-instance comparisons from the same flag value also compare the wording of the issues (hash ID)
STRICT_EXTRA = {"parse": ["ID"], "print": ["ID"], "validate": ["ID"], "analyse": ["ID"], "flatten": ["ID"], "annot_ids": ["ID"],
                "resolve": [], "generate": [], "annot_assign": ["ID"]}


class Judge:
    def __init__(self, ctx, inp):
        self.ctx, self.inp = ctx, inp
        self.nviol = 0
        self.hist = {"groups": 0, "k19": 0, "k19_validator": 0, "k35": 0, "flag_changed_by_noise": 0,
                     "same_instance_noise": 0, "modelled_cases": 0, "oracle_only_cases": 0, "crashed_cases": 0,
                     "mutation_checks": 0, "reset_checks": 0, "model_steps": 0, "math_exact_compared": 0,
                     "sens_true": 0, "flag_pairs_differ": 0}
        self.ops = {}
        self.noises = {}
        self.classes = {}
        self.interferers = {}
        self.statuses = {}
        self.hist["interference_checks"] = 0

    def violation(self, what, case, detail):
        cls = re.sub(r"[0-9]+", "", what.split(":")[0])[:60]
        self.classes[cls] = self.classes.get(cls, 0) + 1
        if self.classes[cls] > 2:
            return
        self.nviol += 1
        if self.nviol <= 8:
            self.ctx.violation(what, "case_%d.json" % self.nviol,
                               {"property": "C12", "what": what, "kind": case.kind, "history": case.text(),
                                "inputs": self.inputs_of(case), "detail": detail, "info": case.info,
                                "how": "bin/check C12 --replay <this file> re-runs the history on the current tree (one line per step: "
                                       "g = libxml2's flag after the step, H/Hn = dump hashes, I = issues, U/UL/P = inputs unchanged)"})

    def inputs_of(self, case):
        """the table rows (and, for import graphs, the files) the history names: the replay is self-contained"""
        rows = {}
        byid = {i: (k, d) for i, k, d in self.inp.rows}
        for cpp, _, _ in case.steps:
            for tok in cpp.split(":")[1:]:
                if tok in byid and tok not in rows:
                    k, d = byid[tok]
                    rows[tok] = {"kind": k, "hex": d.hex()}
                    if k == "dir":
                        path = d.decode()
                        rows[tok]["files"] = {f: open(os.path.join(path, f), "rb").read().hex() for f in sorted(os.listdir(path))}
        return rows

    def judge(self, case, outs):
        """outs: [(step name, fields)] aligned with case.steps"""
        gb = [None] + [o[1].get("g") for o in outs[:-1]]       # flag before each step
        # -- immutability of inputs, on every step that reports it
        for idx, (name, d) in enumerate(outs):
            for k in ("U", "UL", "P"):
                if k in d:
                    self.hist["mutation_checks"] += 1
                    if d[k] != "1":
                        what = {"U": "the model given to %s is changed by the call" % name,
                                "UL": "flattenModel changed a model held by an import source / the importer's library",
                                "P": "analyseModel changed an AnalyserModel handed out by an earlier call"}[k]
                        self.violation(what, case, {"step": case.steps[idx][0], "index": idx, "fields": d})
            if d.get("RN") == "0":
                self.hist["mutation_checks"] += 1
                self.violation("%s returned the very object it was given instead of a new one" % name, case,
                               {"step": case.steps[idx][0], "index": idx, "fields": d})
            if name == "flatten" and d.get("RS", "0") != "0":
                self.violation("the model returned by flattenModel shares objects with the model it was given", case,
                               {"step": case.steps[idx][0], "index": idx, "fields": d})
            if name == "flatten" and "st" in d:
                self.statuses[d["st"]] = self.statuses.get(d["st"], 0) + 1
        # -- groups
        groups = {}
        for idx, (cpp, ms, grp) in enumerate(case.steps):
            if grp is not None:
                groups.setdefault(grp[:2] if grp[0] in ("resolve", "flatten") else grp, []).append(idx)
        for grp, idxs in groups.items():
            self.hist["groups"] += 1
            kind = grp[0]
            if kind == "strict":
                # op(Y); op(X) on one instance against op(X) on a fresh instance, from the same flag value: everything equal
                self.hist["interference_checks"] += 1
                a, b = outs[idxs[0]][1], outs[idxs[-1]][1]
                fields = ["R", "I", "LV"] if grp[1] == "resolve" else FIELDS[grp[1]] + STRICT_EXTRA[grp[1]]   # (the library of the used importer also holds Y's files)
                diff = [f for f in fields if a.get(f) != b.get(f)]
                if diff:
                    if grp[1] == "annot_assign" and set(diff) <= {"H", "Hn"} and a.get("Hi") == b.get("Hi") and self.ctx.known_finding(
                            "C12-annotator-id-counter",
                            "the ids an Annotator assigns to a model depend on what the same Annotator assigned to other models before"):
                        self.hist["annotator_counter"] = self.hist.get("annotator_counter", 0) + 1
                        continue
                    self.violation("%s(X) after %s(Y) on the same instance differs from %s(X) on a fresh instance: fields %s (Y: %s)" %
                                   (grp[1], grp[1], grp[1], ",".join(diff), case.info.get("interferer")), case,
                                   {"same_instance": {"step": case.steps[idxs[0]][0], "out": a},
                                    "fresh_instance": {"step": case.steps[idxs[-1]][0], "out": b}})
                cat = (case.info.get("interferer") or "?").split(":")[0]
                self.interferers[cat] = self.interferers.get(cat, 0) + 1
                continue
            if kind == "reset":
                self.hist["reset_checks"] += 1
                a, b = outs[idxs[-2]][1], outs[idxs[-1]][1]
                if a.get("I") != b.get("I") or a.get("LV") != b.get("LV"):
                    self.violation("%s after a failing call on the same instance does not report the issues of the call alone" % grp[1],
                                   case, {"same_instance": a, "fresh_instance": b})
                continue
            ref = idxs[0]
            for j in idxs[1:]:
                self.compare(case, kind, grp, ref, j, outs, gb)

    def compare(self, case, kind, grp, i, j, outs, gb):
        a, b = outs[i][1], outs[j][1]
        fields = FIELDS[kind]
        if kind == "resolve" and ("again" in case.steps[j][2] or "again" in case.steps[i][2]):
            fields = ["R", "I"]      # the library of the same importer is documented state: it may have grown in between
        diff = [f for f in fields if a.get(f) != b.get(f)]
        if gb[i] != gb[j]:
            self.hist["flag_pairs_differ"] += 1
        if not diff:
            return
        meta = self.inp.meta.get(case.info.get("input"), {})
        flags_differ = gb[i] != gb[j]
        if kind == "parse":
            if set(diff) <= {"H"} and flags_differ:
                self.hist["k19"] += 1
                if self.ctx.known_finding("C12-keepblanks-math-strings",
                                          "the same text parsed with xmlKeepBlanksDefault %s / %s (a printModel ran in between) gives math strings that differ in inter-element white space" % (gb[i], gb[j])):
                    return
        elif kind == "validate":
            if flags_differ and meta.get("tokc"):
                self.hist["k19_validator"] += 1
                if self.ctx.known_finding("C12-keepblanks-validator-token-comments",
                                          "validateModel of ONE model object reports %s with the flag %s and %s with the flag %s (ci/cn element holding comments and blank text)" % (a.get("I"), gb[i], b.get("I"), gb[j])):
                    return
        elif kind == "resolve":
            ga = case.info.get("graph", {})
            again = "again" in case.steps[j][2] or "again" in case.steps[i][2]
            if again and ga.get("parse_errors") and set(diff) <= {"R", "I"}:
                self.hist["k35"] += 1
                if self.ctx.known_finding("C12-resolve-repeat-cached-parse-errors",
                                          "resolveImports repeated on an importer whose library already holds a model that was parsed with errors: first R=%s %s, then R=%s %s" % (a.get("R"), a.get("I"), b.get("R"), b.get("I"))):
                    return
            if set(diff) <= {"LH"} and self.flags_vary(outs):
                self.hist["k19"] += 1
                if self.ctx.known_finding("C12-keepblanks-math-strings", "library models parsed by resolveImports under different flag values differ in math white space"):
                    return
        elif kind == "flatten":
            if set(diff) <= {"F"} and self.flags_vary(outs):
                self.hist["k19"] += 1
                if self.ctx.known_finding("C12-keepblanks-math-strings", "flattened models differ in math white space when the library was parsed / the math re-serialised under different flag values"):
                    return
        self.violation("%s gives a different result at another point of the history: fields %s (flag before: %s vs %s)" %
                       (kind, ",".join(diff), gb[i], gb[j]), case,
                       {"first": {"step": case.steps[i][0], "out": a}, "second": {"step": case.steps[j][0], "out": b}})

    def source_class(self, case, ci):
        """class of the input that produced the model slot used by step ci"""
        slot = case.steps[ci][1][1][1]
        for j in range(ci - 1, 0, -1):
            f = case.steps[j][0].split(":")
            if f[0] == "build" and f[2] == slot:
                return self.inp.meta[f[1]].get("cls")
            if f[0] == "parse" and f[3] == slot:
                m = self.inp.meta[f[2]]
                return m.get("cls") if not m.get("dirty") else "dirtydoc"
        return None

    @staticmethod
    def flags_vary(outs):
        return len({o[1].get("g") for o in outs}) > 1

    # -- correspondence with the model
    def correspond(self, case, outs, mline, kinds):
        if mline.startswith("MODEL-ERROR") or mline == "<missing>":
            self.violation("the extracted model failed on a case", case, {"model": mline})
            return
        ms = parse_model_line(mline)
        # align: model steps (without the 'end' record) vs C++ steps after G; 'sync' steps have no C++ counterpart
        ci = 1
        for (mk, md), kd in zip(ms, kinds):
            if kd == "sync":
                continue
            name, d = outs[ci]
            cpp = case.steps[ci][0]
            self.hist["model_steps"] += 1
            bad = []
            if kd not in ("F", "I") and md.get("g") != d.get("g"):
                bad.append("flag after the step: implementation %s, model %s" % (d.get("g"), md.get("g")))
            if kd == "I" and md.get("g") == "1" and d.get("g") != "1":
                bad.append("resolveImports: the model says the documents it parsed set the flag, the implementation left it off")
            if kd == "I" and d.get("g") == "0" and outs[ci - 1][1].get("g") == "1":
                bad.append("resolveImports cleared the flag (the model says it can only keep or set it)")
            if kd == "F" and d.get("g") == "0" and outs[ci - 1][1].get("g") == "1":
                bad.append("flattenModel cleared the flag (the model says it can only keep or set it)")
            if kd == "P":
                meta = self.inp.meta[case.steps[ci][1][1]]
                if md.get("sens") == "1":
                    self.hist["sens_true"] += 1
                if "M" in d and meta.get("exact"):
                    self.hist["math_exact_compared"] += 1
                    if d["M"] != md.get("M", ""):
                        bad.append("captured math strings differ from the model's")
                if meta.get("counts") and cpp.split(":")[1][0] == "p":
                    if d.get("xc") != md.get("it"):
                        bad.append("XML_UNEXPECTED_CHARACTER issues: implementation %s, model %s" % (d.get("xc"), md.get("it")))
                    if d.get("xe") != md.get("ie"):
                        bad.append("XML_UNEXPECTED_ELEMENT issues: implementation %s, model %s" % (d.get("xe"), md.get("ie")))
                    if not meta.get("dirty") and str(int(d.get("ec", 0)) + int(d.get("ic", 0))) != md.get("iempty"):
                        bad.append("empty encapsulation / import issues: implementation %s+%s, model %s" % (d.get("ec"), d.get("ic"), md.get("iempty")))
            if kd == "V":
                if self.source_class(case, ci) in ("genmodel", "gendoc"):
                    if (d.get("ci"), d.get("cn")) != (md.get("ciempty"), md.get("cnformat")):
                        bad.append("validator ci/cn verdicts: implementation ci=%s cn=%s, model ci=%s cn=%s" %
                                   (d.get("ci"), d.get("cn"), md.get("ciempty"), md.get("cnformat")))
            if bad:
                self.violation("model and implementation disagree: " + "; ".join(bad), case,
                               {"step": cpp, "index": ci, "implementation": d, "model": md})
                return
            ci += 1
        end = ms[-1][1] if ms and ms[-1][0] == "end" else {}
        if end and not (end.get("fold") == end.get("char")):
            self.violation("model self-check: fold and closed form of flag_after differ", case, {"model": mline})


# ------------------------------------------------------------------------------------------------ run
def build_cases(ctx, inp, sets, quick):
    b = Builder(ctx.rng, inp, sets)
    cases = b.special_cases()
    n_triples = 600 if quick else 11000
    n_reset = 80 if quick else 1000
    n_interfere = 330 if quick else 7000
    n0 = len(cases)
    while len(cases) < n0 + n_triples:
        c = b.triple()
        if c is not None:
            cases.append(c)
    k = 0
    while k < n_reset:
        c = b.reset_case()
        if c is not None:
            cases.append(c)
            k += 1
    for _ in range(n_interfere):
        cases.append(b.interfere())
    for _ in range(150 if quick else 3000):
        cases.append(b.immut_case())
    return cases


def evaluate(ctx, inp, cases, drv, mdl, tag="c12"):
    tpath = os.path.join(ctx.workdir, "c12.table")
    inp.write(tpath)
    lines = run_driver(drv, tpath, [c.text() for c in cases], ctx.workdir, tag)
    ctx.log("implementation: %d histories run" % len(lines))
    judge = Judge(ctx, inp)
    parsed = []
    mcases, midx = [], []
    for c, line in zip(cases, lines):
        outs = parse_out(line)
        if outs is not None and len(outs) != len(c.steps):
            outs = None
        parsed.append(outs)
        if outs is None:
            continue
        mc = model_case(c, outs, inp)
        if mc is not None:
            mcases.append(mc)
            midx.append(len(parsed) - 1)
    mpath = os.path.join(ctx.workdir, tag + ".model.cases")
    with open(mpath, "w") as f:
        for i, k, d in inp.rows:
            t = inp.meta[i].get("tree")
            if t is not None:
                f.write("def %s %s\n" % (i, cg.enc_tree(t)))
        for g in getattr(inp, "graphs", []):
            for name, t in g["trees"].items():
                if t is not None:
                    f.write("def %s:%s %s\n" % (g["dir"], name, cg.enc_tree(t)))
        for key, enc in FOREST_DEFS.items():
            if enc is not None:
                f.write("deff %s %s\n" % (key, enc))
        for text, kinds in mcases:
            f.write(text + "\n")
    ctx.log("model cases written: %d (%.1f MB)" % (len(mcases), os.path.getsize(mpath) / 1e6))
    rc, mout = vf.sh([mdl, mpath], timeout=3000)
    ctx.log("model run done")
    mlines = mout.split("\n")
    mres = {}
    for k, i in enumerate(midx):
        mres[i] = (mlines[k] if k < len(mlines) and mlines[k] else "<missing>", mcases[k][1])
    nontrivial = set()
    crashed = []
    for i, (c, outs) in enumerate(zip(cases, parsed)):
        judge.ops[c.kind] = judge.ops.get(c.kind, 0) + 1
        if "noise" in c.info:
            nk = c.info["noise"].split(":")[0]
            judge.noises[nk] = judge.noises.get(nk, 0) + 1
        if outs is None:
            judge.hist["crashed_cases"] += 1
            crashed.append((c, lines[i]))
            continue
        judge.judge(c, outs)
        if i in mres:
            judge.hist["modelled_cases"] += 1
            judge.correspond(c, outs, mres[i][0], mres[i][1])
        else:
            judge.hist["oracle_only_cases"] += 1
        a, bnd = c.noise
        changed = bnd > a and outs[a - 1][1].get("g") != outs[bnd - 1][1].get("g")
        if changed:
            judge.hist["flag_changed_by_noise"] += 1
        if c.same_instance_noise:
            judge.hist["same_instance_noise"] += 1
        if changed or c.same_instance_noise:
            nontrivial.add(hashlib.sha1(c.text().encode()).hexdigest())
    return judge, nontrivial, crashed, lines


def setup_for(case, idx):
    """the steps needed to bring the objects named by step idx into existence, without the rest of the history"""
    f = case.steps[idx][0].split(":")
    op = f[0]
    want, want_ext = set(), set()
    if op in ("print", "validate", "annot"):
        want.add(f[2])
    elif op == "analyse":
        want.add(f[2])
        want_ext.add(f[1])
    elif op == "generate":
        want.add("A:" + f[2])
        want_ext.add(f[2])
    elif op == "resolve":
        want.add(f[2])
    elif op == "flatten":
        want.add(f[2])
        want.add("I:" + f[1])
    elif op in ("clone", "equals", "dump"):
        want.update(f[1:3])
    need = []
    for j in range(idx - 1, 0, -1):
        g = case.steps[j][0].split(":")
        o = g[0]
        if o == "parse" and g[3] in want:
            want.discard(g[3])
            need.insert(0, case.steps[j][0])
        elif o == "build" and g[2] in want:
            want.discard(g[2])
            need.insert(0, case.steps[j][0])
        elif o == "clone" and g[2] in want:
            want.discard(g[2])
            want.add(g[1])
            need.insert(0, case.steps[j][0])
        elif o == "flatten" and len(g) > 3 and g[3] in want:
            want.discard(g[3])
            want.update([g[2], "I:" + g[1]])
            need.insert(0, case.steps[j][0])
        elif o == "analyse" and "A:" + g[1] in want:
            want.discard("A:" + g[1])
            want.add(g[2])
            need.insert(0, case.steps[j][0])
        elif o == "extvar" and g[1] in want_ext:
            want.add(g[2])
            need.insert(0, case.steps[j][0])
        elif o == "resolve" and "I:" + g[1] in want:
            want.discard("I:" + g[1])
            want.add(g[2])
            need.insert(0, case.steps[j][0])
    return need


def control_crashes(ctx, inp, crashed, drv, judge):
    """a case that died: is the crash there without the history (then it is another property's business)?"""
    if not crashed:
        return
    tpath = os.path.join(ctx.workdir, "c12.table")
    singles, owners = [], []
    for c, line in crashed[:200]:
        for idx, (cpp, ms, grp) in enumerate(c.steps):
            if idx == 0:
                continue
            op = cpp.split(":")[0]
            if op in ("parse", "build"):
                continue
            # the step alone, after the latest steps that create the objects it names (transitively)
            need = setup_for(c, idx)
            for g in "01":      # under either value of the flag (the validator's verdict on ci / cn with comments depends on it)
                singles.append(" ".join(["G:" + g] + need + [cpp]))
                owners.append((c, line, cpp))
    outs = run_driver(drv, tpath, singles, ctx.workdir, "ctl") if singles else []
    dead_alone = {}
    for (c, line, cpp), o in zip(owners, outs):
        if parse_out(o) is None:
            dead_alone.setdefault(id(c), []).append(cpp)
    for c, line in crashed[:200]:
        if id(c) in dead_alone:
            judge.hist.setdefault("crashes_reproduced_without_history", 0)
            judge.hist["crashes_reproduced_without_history"] += 1
        else:
            judge.violation("the history dies (%s) although each of its calls survives on its own" % line[:40], c, {"line": line[:200]})


def run(ctx):
    quick = ctx.quick()
    ctx.proofs()
    ctx.assumptions += [
        "A-xml: libxml2's text -> tree step is not modelled: a document is given to the model as the tree python's expat builds (all text and comment nodes, adjacent text merged), assumed to be the tree libxml2 builds with xmlKeepBlanksDefault(1); GlobalDefs.strip (parser.c areBlanks, no DTD, no xml:space) is what it builds with 0; xmlNodeDump + re-parse is the identity on trees. Checked on every modelled case by comparing captured math strings and the flag after every step.",
        "the flag is read through libxml2's own API (xmlKeepBlanksDefault(1) returns the old value, which is then restored); libxml2 keeps it per thread: the driver is single-threaded",
        "Importer::flattenModel's effect on the flag is modelled only as 'keeps or sets' (the math strings it re-reads depend on the units renaming); the model is re-synchronised on the observed value after that step",
        "issues are compared as multisets of (level, rule, item type); texts by hash; models by harness/common/dump.hpp",
        "documents with DOCTYPE / CDATA / processing instructions / xml:space / CR references, and CellML 1.x documents, are outside the modelled fragment: oracle only",
    ]
    build = vf.build_repo("plain")
    drv = vf.compile_driver(build, os.path.join(vf.ROOT, DRV))
    mdl = vf.ocaml_driver("global")
    inp, sets = make_inputs(ctx, drv, quick)
    ctx.log("inputs: %d table rows" % len(inp.rows))
    cases = []
    corpus = os.path.join(vf.ROOT, "corpus", "C12")
    cases += build_cases(ctx, inp, sets, quick)
    judge, nontrivial, crashed, lines = evaluate(ctx, inp, cases, drv, mdl)
    control_crashes(ctx, inp, crashed, drv, judge)
    ctx.log("cases=%d %s" % (len(cases), judge.hist))
    if judge.classes:
        ctx.log("violation classes: %s" % judge.classes)
        ctx.notes.append("violations by class: %s" % judge.classes)
    ctx.cov["evaluations"] = len(cases)
    ctx.cov["distinct_nontrivial"] = len(nontrivial)
    ctx.cov["rule"] = ("one case = (input X, noise call(s) N, operation op): op(X) on a fresh instance; N; op(X) on another fresh instance; "
                       "op(X) twice on the first instance; plus (failing call, good call) pairs on one instance for the issue-list reset; "
                       "plus same-instance interference histories for every service (Parser strict / non-strict, Validator, Analyser with and "
                       "without external variables, Generator with another profile before, Printer, Importer, Annotator): op(Y); op(X) on one "
                       "instance against op(X) on a fresh instance from the same flag value, Y drawn to interfere with X (near-copy with the "
                       "same names and other definitions, CellML 1.0/1.1 document, 2.0 document with 1.x-only attributes, error / warning / "
                       "message producing, invalid, empty, null); issues are compared with their by-level view (counts and enumerations). "
                       "non-trivial = the noise changes libxml2's flag (value read before and after it differs) or uses the same service "
                       "instance as the operation; distinct by the text of the history")
    ctx.cov["input_distribution"] = {"operations": judge.ops, "noise": judge.noises, "counters": judge.hist,
                                     "interferers_of_same_instance_histories": judge.interferers,
                                     "status_of_models_given_to_flattenModel": judge.statuses,
                                     "inputs": {k: len(v) if isinstance(v, list) else 1 for k, v in sets.items()}}
    ctx.cov["samples"] = [cases[0].text()[:300], cases[len(cases) // 3].text()[:300], cases[-1].text()[:300]]
    ctx.cov["traces_validated_against_impl"] = judge.hist["modelled_cases"]
    if judge.hist["modelled_cases"] < len(cases) // 3:
        ctx.violation("fewer than a third of the histories are inside the modelled fragment", "coverage.json",
                      {"modelled": judge.hist["modelled_cases"], "cases": len(cases)}, no_input=True)


def replay(ctx, path):
    r = json.load(open(path))
    build = vf.build_repo("plain")
    drv = vf.compile_driver(build, os.path.join(vf.ROOT, DRV))
    rdir = os.path.join(ctx.workdir, "replay")
    os.makedirs(rdir, exist_ok=True)
    table = os.path.join(rdir, "replay.table")
    with open(table, "w") as f:
        for i, row in r.get("inputs", {}).items():
            data = bytes.fromhex(row["hex"])
            if row["kind"] == "dir":
                d = os.path.join(rdir, i)
                os.makedirs(d, exist_ok=True)
                for name, hx in row.get("files", {}).items():
                    with open(os.path.join(d, name), "wb") as g:
                        g.write(bytes.fromhex(hx))
                data = (d + "/").encode()
            f.write("%s\t%s\t%s\n" % (i, row["kind"], data.hex()))
    cf = os.path.join(rdir, "replay.cases")
    open(cf, "w").write(r["history"] + "\n")
    print("what   :", r.get("what"))
    print("history:", r["history"])
    rc, out = vf.sh([drv, "run", table, cf])
    line = out.strip().split("\n")[0] if out.strip() else "<missing>"
    po = parse_out(line)
    if po is None:
        print("implementation:", line)
        return
    for (name, d), (cpp, _, _) in zip(po, [(x, None, None) for x in r["history"].split(" ")]):
        print("  %-40s %s" % (cpp[:40], " ".join("%s=%s" % (k, v if len(v) < 60 else v[:57] + "...") for k, v in d.items())))
    if r.get("detail"):
        print("recorded:", json.dumps(r["detail"])[:1500])
