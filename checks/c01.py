"""C01 — no input can crash, hang or corrupt the processing pipeline (partial by nature).

proofs : Properties_C01.v — the validator/analyser MathML contract on the well-formed grammar (+ refuting witnesses),
         null-safety of the validator's own passes, guarded conversions never throw, the unguarded std::stod of the
         power-exponent evaluation, termination of a unit reducer on acyclic graphs / divergence on a cycle.
tie    : (a) extracted model (val_math / ana / pow) against Parser -> Validator -> Analyser -> Generator of an
         ASan+UBSan build on enumerated MathML trees (depth <= 3), generated well-formed documents and the Coq witnesses:
         issue rules compared exactly, crash / no crash compared with the model's verdict.
search : (c) the whole pipeline (strict and permissive parse, validate, print, model/units/component queries, analyse,
         generate C + Python, resolve imports, flatten, and again on the flattened model) on every file of
         /repo/tests/resources, seeded structure-aware and raw mutations of them, one forked child per input
         (64 MiB stack, 20 s).  Any CRASH / THROW / TIMEOUT is a violation unless the INPUT is inside a known-finding
         class (known_findings.d/C01.json); behind a known crash the run is repeated with the dead stage skipped.
"""
import json
import os
import random
import re
import resource
import shutil
import subprocess
import sys
import time

import vf

sys.path.insert(0, os.path.join(vf.ROOT, "gen"))
import doc_mutate as dm  # noqa: E402
import doc_sweep as ds  # noqa: E402

RES = os.path.join(vf.REPO, "tests", "resources")
ASAN = "detect_leaks=0:allocator_may_return_null=1:handle_abort=1"
UBSAN = "print_stacktrace=1"
ASAN_FAST = ASAN + ":symbolize=0"
os.environ.setdefault("C01_STACK_MB", "64")     # sanitizer runs; the plain pass overrides it with 8
UBSAN_FAST = "print_stacktrace=0:symbolize=0"

# stages in which a recursive unit reducer runs (family K3)
K3_STAGES = {"V", "V2", "FV", "Qd", "Qd2", "Ud", "Ur", "Uc", "Us", "Un", "C", "A", "FA", "I", "F", "Qi", "Q2", "R", "FR"}
ANALYSE_STAGES = {"A": "V", "FA": "FV"}


def _unlimited_stack():
    try:
        resource.setrlimit(resource.RLIMIT_STACK, (resource.RLIM_INFINITY, resource.RLIM_INFINITY))
    except (ValueError, OSError):
        pass


def env_with(**kw):
    e = dict(os.environ)
    e.update(kw)
    return e


def run_sharded(exe, mode, lines, workdir, tag, env, nsh=None, timeout=3600):
    """split lines over processes; returns outputs in the order of lines"""
    nsh = nsh or vf.NCPU
    nsh = max(1, min(nsh, len(lines)))
    procs = []
    for k in range(nsh):
        part = lines[k::nsh]
        p = os.path.join(workdir, "%s.%d.in" % (tag, k))
        with open(p, "w") as f:
            f.write("".join(l + "\n" for l in part))
        procs.append((k, len(part), subprocess.Popen([exe, mode, p], stdout=subprocess.PIPE, stderr=subprocess.DEVNULL, env=env)))
    out = [None] * len(lines)
    for k, n, pr in procs:
        try:
            o = pr.communicate(timeout=timeout)[0].decode("utf-8", "replace").split("\n")
        except subprocess.TimeoutExpired:
            pr.kill()
            o = []
        for i in range(n):
            out[k + i * nsh] = o[i] if i < len(o) and o[i] else "<missing>"
    return out


def retry_timeouts(drv, mode, lines, outs, workdir):
    """a TIMEOUT (or a missing line) on a starved machine is not a hang: such cases are run once more, few at a time,
    with a generous limit, before they are judged"""
    again = [i for i, o in enumerate(outs) if "TIMEOUT" in o or o == "<missing>"]
    if again:
        o2 = run_sharded(drv, mode, [lines[i] for i in again], workdir, mode + "-retry",
                         env_with(ASAN_OPTIONS=ASAN_FAST, UBSAN_OPTIONS=UBSAN_FAST, C01_SECONDS="150"), nsh=4)
        outs = list(outs)
        for i, o in zip(again, o2):
            outs[i] = o
    return outs


def tokens(line):
    d = {}
    order = []
    for t in line.split():
        if "=" in t and not t.startswith("!"):
            k, v = t.split("=", 1)
            d[k] = v
            order.append(k)
    bang = {t[1:].split("=", 1)[0]: t.split("=", 1)[1] for t in line.split() if t.startswith("!") and "=" in t}
    return d, order, bang


def is_dead(v):
    return v.startswith("CRASH") or v.startswith("THROW") or v.startswith("TIMEOUT") or v == ""


# ------------------------------------------------------------------------------------------------ (a) MathML contract

WITNESSES = {   # the witnesses of Properties_C01.C01_val_implies_ana_refuted, as XML bodies of <math>
    "w_min_no_operand": '<apply><eq/><ci>x</ci><apply><min/></apply></apply>',
    "w_max_no_operand": '<apply><eq/><ci>x</ci><apply><max/></apply></apply>',
    "w_rem_no_operand": '<apply><eq/><ci>x</ci><apply><rem/></apply></apply>',
    "w_min_one_operand": '<apply><eq/><ci>x</ci><apply><min/><ci>y</ci></apply></apply>',
    "w_diff_non_ci": '<apply><eq/><apply><diff/><bvar><ci>t</ci></bvar><cn cellml:units="dimensionless">1</cn></apply><ci>y</ci></apply>',
    "w_bare_ci": '<ci>x</ci>',
    "w_not_equation_min": '<apply><plus/><ci>x</ci><min/></apply>',
    "w_empty_piecewise": '<apply><eq/><ci>x</ci><piecewise/></apply>',
    "w_ci_comment_first": '<apply><eq/><ci>x</ci><ci><!--c-->y</ci></apply>',
    "w_apply_without_operand": '<apply><eq/><ci>x</ci><apply><ci>y</ci></apply></apply>',
    "w_unvalidated_degree": '<apply><eq/><ci>x</ci><apply><root/><degree><apply><divide/><ci>y</ci></apply></degree><ci>y</ci></apply></apply>',
    "w_unvalidated_bvar": '<apply><eq/><apply><diff/><bvar><piecewise/></bvar><ci>x</ci></apply><ci>y</ci></apply>',
    "w_ci_empty_in_bvar": '<apply><eq/><apply><diff/><bvar><ci/></bvar><ci>t</ci></apply><ci>y</ci></apply>',
    "w_cn_empty_in_degree": '<apply><eq/><ci>x</ci><apply><root/><degree><cn cellml:units="dimensionless"/></degree><ci>y</ci></apply></apply>',
    "w_cn_sep_in_degree": '<apply><eq/><ci>x</ci><apply><root/><degree><cn cellml:units="dimensionless"><sep/></cn></degree><ci>y</ci></apply></apply>',
}
MATH_OPEN = '<math xmlns="%s" xmlns:cellml="%s">' % (dm.MATHML, dm.CELLML2)


def body_tokens(body):
    root = dm.parse_xml((MATH_OPEN + body + "</math>").encode())
    return None if root is None else dm.math_tokens(root)


def finding_for_site(site):
    return "C01-K33-" + site


def math_part(ctx, drv, mdl, quick):
    """returns (#cases, histogram)"""
    wd = ctx.workdir
    off = ctx.seed
    # --- the model enumerates; per verdict class a capped, seed-dependent sample goes to the library
    sets = [("d1", 0, 60 if quick else 400), ("d2", 3 if quick else 4, 100 if quick else 500), ("d3", 2 if quick else 3, 80 if quick else 400)]
    sets.append(("ar", 0, 100000))     # the arity sweep is always replayed completely
    procs = []
    for name, nl, cap in sets:
        procs.append((name, subprocess.Popen([mdl, "enum", name, str(nl), str(cap), str(off)], stdout=subprocess.PIPE,
                                             stderr=subprocess.PIPE, preexec_fn=_unlimited_stack)))
    cases = []      # (origin, body, model_val, model_ana)
    enum_stats = {}
    for name, pr in procs:
        o, e = pr.communicate(timeout=3000)
        if pr.returncode != 0:
            raise vf.BuildError("model enumeration %s failed: %s" % (name, e.decode()[-500:]))
        for l in o.decode().split("\n"):
            if l.startswith("# total"):
                enum_stats[name] = dict(t.split("=") for t in l[2:].split())
            elif l and not l.startswith("#"):
                f = l.split()
                cases.append((name, bytes.fromhex(f[1]).decode(), f[2][4:], f[3][4:]))
    # --- witnesses of the _refuted theorem, generated well-formed documents, and shape mutations of those
    extra = [("witness:" + k, v) for k, v in WITNESSES.items()]
    rng = random.Random(ctx.seed * 7919 + 1)
    n_wf = 250 if quick else 3000
    for i in range(n_wf):
        m = dm.gen_wf_math(rng, rng.choice([1, 2, 3, 3, 4]))
        extra.append(("wf", dm.math_body(m)))
        if i % 2 == 0:
            m2 = dm.parse_xml(dm.ET.tostring(m))
            for _ in range(rng.choice([1, 1, 2])):
                try:
                    dm.m_math_shape(m2, rng)
                except Exception:
                    pass
            if dm._local(m2.tag) == "math":
                extra.append(("wf-mutated", dm.math_body(m2)))
    evf = os.path.join(wd, "math_extra.eval")
    keep = []
    with open(evf, "w") as f:
        for origin, body in extra:
            t = body_tokens(body)
            if t is not None:
                f.write(t + "\n")
                keep.append((origin, body))
    rc, out = vf.sh([mdl, "eval", evf], timeout=3000)
    ml = out.split("\n")
    for i, (origin, body) in enumerate(keep):
        f = ml[i].split() if i < len(ml) else []
        if len(f) < 2:
            ctx.violation("model driver produced no verdict", "model_missing.json", {"body": body}, no_input=True)
            break
        cases.append((origin, body, f[0][4:], f[1][4:]))
    ctx.log("model verdicts for %d cases ready" % len(cases))
    # --- the library
    lines = [b.encode().hex() for _, b, _, _ in cases]
    outs = run_sharded(drv, "math", lines, wd, "math", env_with(ASAN_OPTIONS=ASAN_FAST, UBSAN_OPTIONS=UBSAN_FAST))
    outs = retry_timeouts(drv, "math", lines, outs, wd)
    hist = {}
    nbad = 0
    nontrivial = set()
    for (origin, body, mval, mana), line in zip(cases, outs):
        d, order, _ = tokens(line)
        key = None
        problem = None
        mv = re.match(r"s(\d+)d(\d+)o(\d+):(.*)", d.get("V", ""))
        dead = [k for k in order if is_dead(d[k])]
        if line == "<missing>" or (mv is None and not dead):
            problem = "no output from the library driver"
        elif mv is None:
            problem = "library died in stage %s before/while validating: %s" % (dead[0], d[dead[0]])
        else:
            s_, dd, o_, rules = int(mv.group(1)), int(mv.group(2)), int(mv.group(3)), mv.group(4)
            if rules != mval:
                problem = "validator issues differ: library %s, model %s" % (rules, mval)
            elif d.get("P") != "0" or s_ or dd or o_:
                key = "rejected-by-dtd" if (s_ == 0 and dd) else "rejected"
            else:
                nontrivial.add(body)
                if mana == "ok":
                    if dead:
                        problem = "model: analyser reads the document; library: stage %s %s" % (dead[0], d[dead[0]])
                    else:
                        key = "accepted/ok"
                else:
                    cls, site = mana.split(":", 1)
                    if dead and d[dead[0]].startswith("TIMEOUT"):
                        problem = "TIMEOUT in stage %s" % dead[0]
                    elif dead:
                        key = "gap:%s/dies-in-%s" % (site, dead[0])
                        if not ctx.known_finding(finding_for_site(site), "validator accepts, %s dies (%s): %s" % (
                                "Analyser::analyseModel" if dead[0] == "A" else "Generator", site, body[:120])):
                            problem = "crash of class %s is not a listed finding" % site
                    else:
                        # inside a known-finding class the library may also behave as the property demands
                        key = "gap:%s/survives" % site
                        if cls == "must":
                            ctx.notes.append("model predicts a certain crash (%s) that the library no longer shows: %s" % (site, body[:100]))
        if origin.startswith("wf") and origin != "wf-mutated" and problem is None and key != "accepted/ok":
            problem = "a document of the WellFormedMath grammar is not accepted/analysed: %s" % key
        if problem:
            nbad += 1
            if nbad <= 5:
                ctx.violation("C01 math contract: %s: %s" % (problem, body[:200]), "math_%d.json" % nbad,
                              {"mode": "math", "origin": origin, "body": body, "hex": body.encode().hex(), "library": line,
                               "model": "val=%s ana=%s" % (mval, mana), "problem": problem})
        else:
            hist[key] = hist.get(key, 0) + 1
    ctx.log("math contract: %d cases (%s), %s" % (len(cases), {k: v.get("total") for k, v in enum_stats.items()}, hist))
    return len(cases), hist, enum_stats, len(nontrivial), [c[1] for c in cases[:1] + cases[len(cases) // 2:len(cases) // 2 + 1] + cases[-1:]]


# ------------------------------------------------------------------------------------------------ (b) power exponent / stod

POW_INITS = ["2", "z", "x", "a", "1e400", "-1e400", "1e-400", "1e309", "1e308", "0.5", "-", "", "nosuch", "1e", "3.0e+2", "1e-330"]
POW_OPERANDS = [
    "<ci>y</ci>",
    '<cn cellml:units="dimensionless" type="e-notation">1<sep/>400</cn>',
    '<cn cellml:units="dimensionless" type="e-notation">1<sep/>-400</cn>',
    '<cn cellml:units="dimensionless" type="e-notation">1.5<sep/>3</cn>',
    '<apply><plus/><ci>y</ci><cn cellml:units="dimensionless">1</cn></apply>',
    '<apply><times/><cn cellml:units="dimensionless">2</cn><ci>y</ci></apply>',
    '<piecewise><piece><ci>y</ci><true/></piece></piecewise>',
]


def pow_part(ctx, drv, mdl):
    wd = ctx.workdir
    cases = [(i, o) for i in POW_INITS for o in POW_OPERANDS[:1]] + [("2", o) for o in POW_OPERANDS[1:]] + [("z", o) for o in POW_OPERANDS[4:]]
    lines = ["%s %s" % (i.encode().hex() or "-", o.encode().hex()) for i, o in cases]
    lines = [l if not l.startswith("- ") else l for l in lines]
    # an empty initial_value cannot be encoded as an empty hex field: the driver treats "-" as hex, so skip empties there
    cases = [(i, o) for i, o in cases if i != ""]
    lines = ["%s %s" % (i.encode().hex(), o.encode().hex()) for i, o in cases]
    evf = os.path.join(wd, "pow.eval")
    with open(evf, "w") as f:
        for i, o in cases:
            body = "<apply><eq/><ci>x</ci><apply><power/><ci>a</ci>%s</apply></apply>" % o
            env = [("x", ""), ("a", "2"), ("z", "3"), ("y", i)]
            f.write("V %d %s %s\n" % (len(env), " ".join("%s %s" % (dm._hx(n), dm._hx(v)) for n, v in env), body_tokens(body)))
    rc, out = vf.sh([mdl, "eval", evf], timeout=600)
    ml = out.split("\n")
    outs = run_sharded(drv, "pow", lines, wd, "pow", env_with(ASAN_OPTIONS=ASAN_FAST, UBSAN_OPTIONS=UBSAN_FAST), nsh=4)
    outs = retry_timeouts(drv, "pow", lines, outs, wd)
    hist = {}
    nbad = 0
    for k, ((i, o), line) in enumerate(zip(cases, outs)):
        d, order, _ = tokens(line)
        mf = dict(t.split("=", 1) for t in ml[k].split()) if k < len(ml) and ml[k] else {}
        dead = [s for s in order if is_dead(d[s])]
        problem = None
        if d.get("P") != "0" or d.get("V") != "0":
            key = "rejected"
        elif mf.get("pow", "none") != "none":
            want = {"invalid_argument": "St16invalid_argument", "out_of_range": "St12out_of_range"}[mf["pow"]]
            if dead and d[dead[0]] == "THROW(%s)" % want:
                key = "throws:" + mf["pow"]
                if not ctx.known_finding("C01-Kstod-power-exponent",
                                         "initial_value=%r exponent %s: uncaught std::%s leaves Analyser::analyseModel" % (i, o[:60], mf["pow"])):
                    problem = "uncaught exception is not a listed finding"
            elif dead:
                problem = "model predicts std::%s, library %s in stage %s" % (mf["pow"], d[dead[0]], dead[0])
            else:
                key = "predicted-throw/survives"      # inside the known class the library may also behave well
        elif dead:
            problem = "library %s in stage %s, the model predicts no exception" % (d[dead[0]], dead[0])
        else:
            key = "ok"
        if problem:
            nbad += 1
            if nbad <= 3:
                ctx.violation("C01 power exponent: %s (initial_value=%r, exponent=%s)" % (problem, i, o[:80]), "pow_%d.json" % nbad,
                              {"mode": "pow", "initial_value": i, "operand": o, "case": lines[k], "library": line, "model": ml[k] if k < len(ml) else ""})
        else:
            hist[key] = hist.get(key, 0) + 1
    ctx.log("power exponent: %d cases, %s" % (len(cases), hist))
    return len(cases), hist


# ------------------------------------------------------------------------------------------------ (c) the pipeline

def corpus_files():
    out = []
    for d, ds, fs in os.walk(RES):
        ds.sort()
        for f in sorted(fs):
            if f.endswith(".cellml") or f.endswith(".xml"):
                out.append(os.path.join(d, f))
    return out


def make_inputs(ctx, quick):
    """returns list of (path, basedir, label, origin)"""
    rng = random.Random(ctx.seed * 104729 + 3)
    files = corpus_files()
    indir = os.path.join(ctx.workdir, "inputs")
    if os.path.isdir(indir):
        for f in os.listdir(indir):
            os.remove(os.path.join(indir, f))
    os.makedirs(indir, exist_ok=True)
    inputs = [(p, os.path.dirname(p) + "/", "corpus", p) for p in files]
    cdir = os.path.join(vf.ROOT, "corpus", "C01")
    if os.path.isdir(cdir):
        for f in sorted(os.listdir(cdir)):
            q = os.path.join(cdir, f)
            if os.path.isdir(q):        # a multi-file case: every file of the directory is run with the directory as base
                for g in sorted(os.listdir(q)):
                    inputs.append((os.path.join(q, g), q + "/", "regression", f + "/" + g))
            else:
                inputs.append((q, cdir + "/", "regression", f))
    # deterministic sweeps over valid base models: vocabulary of every table, near-miss numbers, size stress
    tables = ds.read_tables(vf.REPO)
    sweeps = ds.vocabulary_sweep(tables) + ds.nearmiss_sweep() + ds.stress_sweep() + ds.xmlfeature_sweep()
    for k, (label, doc) in enumerate(sweeps):
        p = os.path.join(indir, "s%05d.cellml" % k)
        with open(p, "wb") as f:
            f.write(doc)
        inputs.append((p, indir + "/", label, "sweep"))
        # a CellML 2.0 document is read alike by both parsers: the permissive run is kept for every fourth one only
        if b"cellml/2.0#" in doc[:300] and not label.startswith("xml:") and k % 4:
            MODES[p] = "s"
    data = {}
    weights = []
    for p in files:
        b = open(p, "rb").read()
        data[p] = b
        weights.append(1.0 if len(b) < 6000 else (0.3 if len(b) < 30000 else (0.03 if len(b) < 64 * 1024 else 0.0)))
    dm.DUP_CAP = 120 if quick else 5000
    n_mut = 1500 if quick else 18000
    n_raw = 250 if quick else 2000
    n = 0
    for k in range(n_mut + n_raw):
        src = rng.choices(files, weights)[0]
        name = "m%06d_%s" % (k, os.path.basename(src))
        if k < n_mut:
            out, label = dm.mutate(data[src], rng, own_name=name)
        else:
            out, label = dm.raw_mutate(data[src], rng)
        p = os.path.join(indir, name)
        with open(p, "wb") as f:
            f.write(out)
        inputs.append((p, os.path.dirname(src) + "/", label, src))
        n += 1
    return inputs


def units_cycle(desc_models):
    """is there a units reference cycle in any of the described models? (names -> refs; first definition wins, as model->units(name))"""
    for m in desc_models:
        graph = {}
        for u in m.get("units", []):
            graph.setdefault(u["name"], u["refs"])
        state = {}
        for start in graph:
            stack = [(start, iter(graph[start]))]
            state.setdefault(start, 1)
            if state[start] == 2:
                continue
            while stack:
                node, it = stack[-1]
                nxt = next(it, None)
                if nxt is None:
                    state[node] = 2
                    stack.pop()
                elif nxt in graph:
                    if state.get(nxt) == 1:
                        return True
                    if state.get(nxt) is None:
                        state[nxt] = 1
                        stack.append((nxt, iter(graph[nxt])))
    return False


def import_capture_cycle(main_models, lib_models):
    """an imported units is given a NAME that its own definition (in the imported file) refers to, directly or through
    other units of that file: flattening copies the definition under the new name and the reference now points at itself"""
    for m in main_models:
        for u in m.get("units", []):
            if not u.get("import") or not u.get("importref") or u["importref"] == u["name"]:
                continue
            for lib in lib_models:
                graph = {}
                for v in lib.get("units", []):
                    graph.setdefault(v["name"], v["refs"])
                if u["importref"] not in graph:
                    continue
                seen, todo = set(), [u["importref"]]
                while todo:
                    n = todo.pop()
                    for r in graph.get(n, []):
                        if r == u["name"]:
                            return True
                        if r in graph and r not in seen:
                            seen.add(r)
                            todo.append(r)
    return False


def import_name_reuse(main_models, lib_models):
    """an imported units has local name N and reference R (N != R), and the imported file ALSO defines a units named N whose
    references lead to R"""
    for m in main_models:
        for u in m.get("units", []):
            if not u.get("import") or not u.get("importref") or u["importref"] == u["name"]:
                continue
            for lib in lib_models:
                graph = {}
                for v in lib.get("units", []):
                    graph.setdefault(v["name"], v["refs"])
                if u["name"] not in graph or u["importref"] not in graph:
                    continue
                seen, todo = set(), [u["name"]]
                while todo:
                    n = todo.pop()
                    for r in graph.get(n, []):
                        if r == u["importref"]:
                            return True
                        if r in graph and r not in seen:
                            seen.add(r)
                            todo.append(r)
    return False


def shared_units_names(models):
    """the same units name is defined in two different models of the import closure"""
    seen = {}
    for k, m in enumerate(models):
        for u in m.get("units", []):
            if u["name"] in seen and seen[u["name"]] != k:
                return True
            seen.setdefault(u["name"], k)
    return False


def decode_describe(out):
    models = []
    dec = json.JSONDecoder()
    s = out.strip()
    i = 0
    hx = lambda h: bytes.fromhex(h).decode("utf-8", "replace")
    while True:
        j = s.find("{", i)
        if j < 0:
            break
        try:
            obj, end = dec.raw_decode(s[j:])
        except ValueError:
            break
        for u in obj.get("units", []):
            u["name"] = hx(u["name"])
            u["importref"] = hx(u.get("importref", ""))
            u["refs"] = [hx(r) for r in u["refs"]]
            u["dangling"] = [hx(r) for r in u.get("dangling", [])]
        obj["imports"] = [[hx(x) for x in t] for t in obj.get("imports", [])]
        obj["math"] = [hx(m) for m in obj.get("math", [])]
        obj["vars"] = [[[hx(n), hx(v)] for n, v in c] for c in obj.get("vars", [])]
        models.append(obj)
        i = j + end
    return models


def describe_many(drv, items, workdir):
    """items: list of (path, base) -> list of model descriptions (one list per item)"""
    if not items:
        return []
    outs = run_sharded(drv, "describe", ["%s\t%s" % (p, b) for p, b in items], workdir, "describe",
                       env_with(ASAN_OPTIONS=ASAN_FAST, UBSAN_OPTIONS=UBSAN_FAST))
    return [decode_describe(o) for o in outs]


def model_verdicts_many(mdl, descs, workdir):
    """the extracted model on every <math> document of every described input.
    returns per input: dict mode-letter -> (set of ana verdicts, set of pow verdicts)"""
    lines = []
    owner = []
    for k, models in enumerate(descs):
        for m in models:
            maths = m.get("math", [])
            varsets = m.get("vars", [])
            for idx, s in enumerate(maths[:40]):
                root = dm.parse_xml(("<r>" + s + "</r>").encode())
                if root is None:
                    continue
                env = varsets[idx] if idx < len(varsets) else []
                for e in root:
                    if isinstance(e.tag, str) and e.tag == "{%s}math" % dm.MATHML:
                        lines.append("V %d %s %s" % (len(env), " ".join("%s %s" % (dm._hx(n), dm._hx(v)) for n, v in env), dm.math_tokens(e)))
                        owner.append((k, m["label"][0]))
    res = [dict() for _ in descs]
    if not lines:
        return res
    evf = os.path.join(workdir, "classify.eval")
    with open(evf, "w") as f:
        f.write("".join(l + "\n" for l in lines))
    rc, out = vf.sh([mdl, "eval", evf], timeout=900)
    ol = out.split("\n")
    for i, (k, letter) in enumerate(owner):
        f = dict(t.split("=", 1) for t in (ol[i].split() if i < len(ol) else []) if "=" in t)
        a, pw = res[k].setdefault(letter, (set(), set()))
        if "ana" in f:
            a.add(f["ana"])
            pw.add(f.get("pow", "none"))
            if f.get("pu") == "1":
                pw.add("exponent-unavailable")
    return res


NULL_KINDS = ("UB:member", "SEGV-null", "UB:reference_binding_to_null", "UB:load_of_null", "UB:null_pointer")


def longest_ws_run(text):
    best = cur = 0
    for ch in text:
        if ch in " \t\n\r":
            cur += 1
            best = max(best, cur)
        else:
            cur = 0
    return best


def raw_features(path):
    """lexical facts about the raw input (for deaths inside the parser, where no model can be described)"""
    try:
        b = open(path, "rb").read()
    except OSError:
        return set()
    f = set()
    if b"<![CDATA[" in b:
        f.add("cdata")
    names = set(re.findall(rb"<!ENTITY\s+([A-Za-z_][\w.-]*)", b))
    body = b.split(b"]>", 1)[1] if b"]>" in b else b
    # a declared general entity referenced in element content (not inside an attribute value)
    content = re.sub(rb'"[^"]*"|\'[^\']*\'', b"", body)
    if any((b"&" + n + b";") in content for n in names):
        f.add("entity-ref-in-content")
    return f


def classify(mode, d, bang, stage, models, verdicts, plain=False, path=None):
    """finding id (or None) for the death in `stage`: a predicate over the INPUT (as parsed: units graph, MathML shape
    decided by the extracted model, outcome of import resolution) plus the dying stage and the kind of death"""
    v = d[stage]
    kind = bang.get("kind", "")
    frames = bang.get("frames", "")
    top = frames.split(";")[0]
    if plain and v.startswith("CRASH(11)"):
        kind = "stack-overflow"     # no sanitizer in the plain pass: SIGSEGV is all there is to see; the input decides
    if stage == "P" and path is not None:
        feats = raw_features(path)
        if v.startswith("THROW(St11logic_error)") and "cdata" in feats:
            return "C01-Kcdata-section", "Parser::parseModel ends with an uncaught std::logic_error: the document holds a CDATA section"
        if v.startswith("CRASH") and "entity-ref-in-content" in feats and (plain or "traverseTreeFor" in frames):
            return "C01-Kentity-reference", "Parser::parseModel dies (%s): a declared entity is referenced in element content" % top
    mine = [m for m in models if m["label"].startswith(mode)] or models
    ana, pw = verdicts.get(mode, (set(), set()))
    mains = [m for m in mine if not m["label"].endswith("lib")]
    libs = [m for m in models if m["label"].endswith("lib")]
    has = bang.get("has", "")
    # (a) a units cycle INSIDE an imported file: the importer's own recursion (checkUnitsForCycles / fetchUnits) has no guard
    if stage in ("F", "I") and v.startswith("CRASH") and kind == "stack-overflow" and ("checkUnitsForCycles" in has or "fetchUnits" in has) \
            and units_cycle(libs):
        return "C01-K3-importer-recursion-unguarded", "stage %s: stack exhaustion in the importer (%s): a units cycle inside an imported file" % (stage, has)
    # (b) flattening renames: an imported units (name N := reference R) while the imported file has its own units N whose
    #     definition leads to R -- transferUnitsRenamingIfRequired / clone recurse for ever
    if stage == "F" and v.startswith("CRASH") and kind == "stack-overflow" and import_name_reuse(mains, libs):
        return "C01-K3-transfer-recursion", "flattenModel exhausts the stack (%s): the local name of an imported units is also a units of the imported file that refers to the imported one" % (has or top)
    # (c) name capture brings an imported units without model into the flattened model
    if stage == "F" and v.startswith("CRASH") and kind.startswith(NULL_KINDS) and "flattenUnitsImports" in has + frames \
            and any(u.get("import") for m in libs for u in m.get("units", [])) and shared_units_names(mains + libs):
        return "C01-Kflatten-captured-import-without-model", "flattenModel dereferences the missing model of a units import carried over by a name capture (%s)" % top
    # K3: a recursive unit reducer on a cyclic units graph -> stack exhaustion
    if ((v.startswith("CRASH") and kind == "stack-overflow") or v.startswith("TIMEOUT")) and stage in K3_STAGES and units_cycle(mine):
        return "C01-K3-units-cycle", "stage %s: %s on a cyclic units graph" % (
            stage, "no return within the time limit" if v.startswith("TIMEOUT") else "stack exhaustion (%s)" % top)
    if stage in ("R", "FR") and v.startswith("CRASH") and kind == "stack-overflow" \
            and any(longest_ws_run(ms) >= 8000 for m in models for ms in m.get("math", [])):
        return "C01-Kregex-whitespace-run", "Printer::printModel exhausts the stack: a math string holds a run of %d white-space characters" % max(
            longest_ws_run(ms) for m in models for ms in m.get("math", []))
    # flattening creates the cycle: an imported units renamed to a name its definition refers to
    if ((v.startswith("CRASH") and kind == "stack-overflow") or v.startswith("TIMEOUT")) and stage in ("F", "FR", "FV", "FA", "FGc", "FGp") \
            and import_capture_cycle([m for m in mine if not m["label"].endswith("lib")], [m for m in models if m["label"].endswith("lib")]):
        return "C01-K3-cycle-made-by-flattening", "stage %s: stack exhaustion (%s): flattening renames an imported units to a name its definition refers to" % (stage, top)
    # validator.cpp handleErrorsFromImports packs (name; reference; url) between '&' markers into issue descriptions and
    # splits them again: a name / reference / url that contains '&' or ';' makes it read ss[1], ss[2] out of bounds
    if v.startswith("CRASH") and "handleErrorsFromImports" in frames \
            and any(("&" in x or ";" in x) for m in models for t in m.get("imports", []) for x in t):
        return "C01-Kvalidator-import-marker", "stage %s: %s in handleErrorsFromImports: an imported entity's name/reference/url contains '&' or ';'" % (stage, kind)
    # a units whose <unit> references a name that is neither standard nor defined: referencedUnits(model, nullptr)
    if v.startswith("CRASH") and kind.startswith(NULL_KINDS) and "referencedUnits" in frames \
            and any(u["dangling"] for m in mine for u in m.get("units", [])):
        return "C01-Kdangling-units-reference", "stage %s: null dereference in referencedUnits on a dangling units reference" % stage
    # importer: flattenModel after resolveImports reported failure
    if v.startswith("CRASH") and stage == "F" and d.get("I", "").startswith("f"):
        return "C01-Kflatten-after-failed-resolve", "flattenModel dies (%s) after resolveImports returned false" % top
    gate = {"A": "V", "FA": "FV", "Gc": "V", "Gp": "V", "FGc": "FV", "FGp": "FV"}.get(stage)
    if gate and d.get(gate, "i0") == "i0":
        if stage in ("A", "FA"):
            if v.startswith("THROW(St16invalid_argument)") and "invalid_argument" in pw:
                return "C01-Kstod-power-exponent", "uncaught std::invalid_argument from the power-exponent evaluation"
            if v.startswith("THROW(St12out_of_range)") and "out_of_range" in pw:
                return "C01-Kstod-power-exponent", "uncaught std::out_of_range from the power-exponent evaluation"
        if stage in ("A", "FA") and v.startswith("CRASH") and kind.startswith(NULL_KINDS) and "analyseEquationUnits" in frames \
                and "exponent-unavailable" in pw and not any(a != "ok" for a in ana):
            return "C01-Kunits-exponent-unavailable", "analyseEquationUnits reads a missing operand after an exponent whose value is not available"
        if v.startswith("CRASH") and kind.startswith(NULL_KINDS):
            sites = sorted(a.split(":", 1)[1] for a in ana if a != "ok" and (stage in ("A", "FA") or a.startswith("may:")))
            if sites:
                return finding_for_site(sites[0]), "validator accepts, %s dies (%s; model: %s)" % (
                    "analyser" if stage in ("A", "FA") else "generator", top, ",".join(sites))
    return None, None


SIZE_LABELS = ("stress:", "run:", "nest:")
MODES = {}      # input path -> parser modes to run ("sp" when absent)


def pipeline_part(ctx, drv, drv_plain, mdl, quick):
    """the sanitizer pass over every input (64 MiB stack: ASan inflates frames several times), then the size-related inputs once
    more on the uninstrumented build with the usual 8 MiB stack, where recursion that grows with the input shows as SIGSEGV"""
    inputs = make_inputs(ctx, quick)
    envp = env_with(ASAN_OPTIONS=ASAN, UBSAN_OPTIONS=UBSAN, C01_SECONDS="45", C01_STACK_MB="64")
    n, hist, label_hist, stage_hist, nt = pipeline_run(ctx, drv, mdl, inputs, envp, "asan", False)
    sized = [i for i in inputs if any(t in i[2] for t in SIZE_LABELS)]
    envq = env_with(C01_SECONDS="30", C01_STACK_MB="8")
    n2, hist2, _, stage_hist2, _ = pipeline_run(ctx, drv_plain, mdl, sized, envq, "plain8", True)
    hist["plain-8MiB-pass"] = hist2
    stage_hist.update({"plain8/" + k: v for k, v in stage_hist2.items()})
    return n + n2, hist, label_hist, stage_hist, nt


def pipeline_run(ctx, drv, mdl, inputs, envp, tag, plain):
    t0 = time.time()
    outs = run_sharded(drv, "pipe", ["%s\t%s\t%s\t" % (p, b, MODES.get(p, "sp")) for p, b, _, _ in inputs], ctx.workdir, "pipe-" + tag, envp)
    ctx.log("pipeline[%s]: %d inputs in %.0fs" % (tag, len(inputs), time.time() - t0))
    hist = {"clean": 0}
    label_hist = {}
    stage_hist = {}
    nontrivial = set()
    # work items: [input index, mode, segment or None (= needs a run), skip list, slow flag]
    work = []
    for k, ((path, base, label, origin), line) in enumerate(zip(inputs, outs)):
        lab0 = label.split("+")[0].split(":")[0]
        label_hist[lab0] = label_hist.get(lab0, 0) + 1
        modes = MODES.get(path, "sp")
        d0, _, _ = tokens(line.split("[p]")[0])
        if d0.get("P") == "i0":
            import hashlib
            nontrivial.add(hashlib.sha256(open(path, "rb").read()).hexdigest())
        segs = {}
        for part in re.split(r"(?=\[[sp]\])", line):
            if part.startswith("[s]") or part.startswith("[p]"):
                segs[part[1]] = part
        dall, oall, _ = tokens(line)
        if line.endswith("END") and all(m in segs for m in modes) and not any(is_dead(dall[x]) for x in oall):
            hist["clean"] += 1
            continue
        for m in modes:
            work.append([k, m, segs.get(m), [], False])
    dead_inputs = sorted(set(w[0] for w in work))
    descs = dict(zip(dead_inputs, describe_many(drv, [(inputs[k][0], inputs[k][1]) for k in dead_inputs], ctx.workdir)))
    verds = dict(zip(dead_inputs, model_verdicts_many(mdl, [descs[k] for k in dead_inputs], ctx.workdir)))
    nviol = 0
    reruns = 0
    for rnd in range(10):
        # 1. run what needs running
        torun = [w for w in work if w[2] is None]
        for slow in (False, True):
            batch = [w for w in torun if w[4] == slow]
            if batch:
                lines = ["%s\t%s\t%s\t%s" % (inputs[w[0]][0], inputs[w[0]][1], w[1], ",".join(w[3])) for w in batch]
                e = dict(envp, C01_SECONDS="120") if slow else envp
                o = run_sharded(drv, "pipe", lines, ctx.workdir, "rerun", e, nsh=(4 if slow else None))
                reruns += len(batch)
                for w, seg in zip(batch, o):
                    w[2] = seg
        # 2. look at every segment
        nxt = []
        for w in work:
            k, mode, seg, skip, slow = w
            path, base, label, origin = inputs[k]
            d, order, bang = tokens(seg)
            dead = [x for x in order if is_dead(d[x])]
            if seg == "<missing>":
                dead, d, order = ["driver"], {"driver": "CRASH(no-output)"}, ["driver"]
            if not dead:
                if slow:
                    hist["slow-but-terminates"] = hist.get("slow-but-terminates", 0) + 1
                    ctx.notes.append("slow but terminates [%s]: %s (%s)" % (tag, os.path.basename(path), label[:80]))
                continue
            stage = dead[0]
            v = d[stage]
            fid, text = classify(mode, d, bang, stage, descs.get(k, []), verds.get(k, {}), plain=plain, path=path)
            if v.startswith("TIMEOUT") and not slow and fid is None:
                nxt.append([k, mode, None, skip, True])      # once more, alone-ish and with a generous limit
                continue
            key = "%s:%s" % (stage, fid or "UNLISTED")
            stage_hist[key] = stage_hist.get(key, 0) + 1
            if fid and ctx.known_finding(fid, "%s [%s parse, input %s (%s)]" % (text, "strict" if mode == "s" else "permissive",
                                                                               os.path.basename(path), label)):
                hist[fid] = hist.get(fid, 0) + 1
                if fid == "C01-K3-units-cycle" or stage == "P":
                    continue        # every later stage reduces units as well / nothing runs without a parsed model
                skip = skip + [stage]
                if fid == "C01-Kdangling-units-reference":
                    skip += [x for x in ("Qi", "Qd", "C", "Q2", "Qd2", "F") if x not in skip]
                if stage in ("A", "FA"):
                    skip += [x for x in (("Gc", "Gp") if stage == "A" else ("FGc", "FGp")) if x not in skip]
                if rnd < 9:
                    nxt.append([k, mode, None, skip, False])  # look behind the known crash
                continue
            nviol += 1
            if nviol <= 5:
                keep = os.path.join(ctx.replaydir, "pipe_%s_%d_input%s" % (tag, nviol, os.path.splitext(path)[1] or ".xml"))
                with open(keep, "wb") as f:
                    f.write(open(path, "rb").read())
                ctx.violation("C01 pipeline[%s]: %s parse, stage %s: %s kind=%s frames=%s (input %s, %s)" % (
                    tag, "strict" if mode == "s" else "permissive", stage, v, bang.get("kind"), bang.get("frames"), os.path.basename(path), label),
                    "pipe_%s_%d.json" % (tag, nviol),
                    {"mode": "pipe", "pass": tag, "input_file": keep, "base": base, "parser": mode, "skip": skip, "label": label, "origin": origin,
                     "line": seg, "stage": stage, "classified": fid})
        work = nxt
        if not work:
            break
    ctx.log("pipeline[%s]: %s; deaths by stage: %s; re-runs %d" % (tag, hist, stage_hist, reruns))
    return len(inputs), hist, label_hist, stage_hist, len(nontrivial)


# ------------------------------------------------------------------------------------------------ entry points

def build(ctx):
    os.environ["PATH"] = "/usr/bin:/bin:" + os.environ.get("PATH", "")   # the system xml2-config, not a conda one
    b = vf.build_repo("asan")
    drv = vf.compile_driver(b, os.path.join(vf.ROOT, "harness/c01_driver.cpp"))
    mdl = vf.ocaml_driver("math")
    bp = vf.build_repo("plain")
    drv_plain = vf.compile_driver(bp, os.path.join(vf.ROOT, "harness/c01_driver.cpp"))
    return drv, mdl, drv_plain


def run(ctx):
    quick = ctx.quick()
    ctx.level = "proof"
    ctx.notes.append("partial by nature: memory safety / UB / libxml2 / stack exhaustion / hangs are observed under ASan+UBSan, not proved")
    ctx.proofs()
    ctx.assumptions += [
        "A-mem: memory errors, undefined behaviour, stack exhaustion and libxml2 are only OBSERVED (ASan+UBSan build, forked child, 64 MiB stack, 20 s alarm); nothing about them is proved",
        "A-xml(iv): the W3C MathML DTD pass of Validator::validateMath is not modelled; documents it rejects are counted as rejected on the library side",
        "A-libc: std::stod throws invalid_argument iff strtod converts nothing and out_of_range on ERANGE (model decides the range only beyond 1e309 / below 1e-324)",
        "the MathML model uses the component variables t,x,y,z and units 'dimensionless' in the correspondence; variable and units look-ups are parameters of the model",
        "generator: only the operands generateCode reads unconditionally are modelled (printable); the sqrt shortcut of ROOT is ignored (over-approximates crashes inside a known class)",
        "known findings are matched on the INPUT (units reference cycle in the parsed model, MathML shape class decided by the extracted model, failed import resolution) plus the dying stage",
    ]
    drv, mdl, drv_plain = build(ctx)
    ctx.log("build + drivers ready")
    # a private scratch directory per run: concurrent runs of this check must not share case / input files
    base_wd = ctx.workdir
    for old in os.listdir(base_wd):
        p = os.path.join(base_wd, old)
        if old.startswith("run") and os.path.isdir(p) and time.time() - os.path.getmtime(p) > 6 * 3600:
            shutil.rmtree(p, ignore_errors=True)
    ctx.workdir = os.path.join(base_wd, "run%d" % os.getpid())
    os.makedirs(ctx.workdir, exist_ok=True)
    try:
        n1, h1, enum_stats, nt1, samples = math_part(ctx, drv, mdl, quick)
        n2, h2 = pow_part(ctx, drv, mdl)
        n3, h3, labels, stages, nt3 = pipeline_part(ctx, drv, drv_plain, mdl, quick)
    finally:
        shutil.rmtree(ctx.workdir, ignore_errors=True)
        ctx.workdir = base_wd
    ctx.cov["evaluations"] = n1 + n2 + n3
    ctx.cov["distinct_nontrivial"] = nt1 + nt3
    ctx.cov["rule"] = ("math contract: every tree of MathDefs.enum_d1 (depth<=1, 25 leaves, <=3 children: %s trees) and of the depth-2/3 sets is "
                       "evaluated by the extracted model; per verdict class a capped seed-dependent sample, the refuting witnesses and generated/mutated "
                       "well-formed documents are replayed on the library (non-trivial = the library's validator raises nothing, distinct by text). "
                       "pipeline: every .cellml/.xml under tests/resources plus seeded structure-aware and raw mutations, strict and permissive "
                       "(non-trivial = the strict parser raises no issue, i.e. the later stages see a complete model)" %
                       enum_stats.get("d1", {}).get("total"))
    ctx.cov["exhaustive"] = False
    ctx.cov["samples"] = samples
    ctx.cov["input_distribution"] = {"math_contract": h1, "model_enumeration": enum_stats, "power_exponent": h2, "pipeline_outcomes": h3,
                                     "pipeline_mutation_kinds": labels, "pipeline_deaths_by_stage_and_class": stages}
    ctx.cov["traces_validated_against_impl"] = n1 + n2


def replay(ctx, path):
    r = json.load(open(path))
    drv, mdl, drv_plain = build(ctx)
    if r.get("pass") == "plain8":
        drv = drv_plain
    mode = r.get("mode")
    if mode == "math":
        cf = os.path.join(ctx.workdir, "replay.cases")
        open(cf, "w").write(r["hex"] + "\n")
        print("body :", r["body"])
        print("impl :", vf.sh([drv, "math", cf], env=env_with(ASAN_OPTIONS=ASAN, UBSAN_OPTIONS=UBSAN))[1].strip())
        ef = os.path.join(ctx.workdir, "replay.eval")
        open(ef, "w").write(body_tokens(r["body"]) + "\n")
        print("model:", vf.sh([mdl, "eval", ef])[1].strip())
    elif mode == "pow":
        cf = os.path.join(ctx.workdir, "replay.cases")
        open(cf, "w").write(r["case"] + "\n")
        print("impl :", vf.sh([drv, "pow", cf], env=env_with(ASAN_OPTIONS=ASAN, UBSAN_OPTIONS=UBSAN))[1].strip())
        print("model:", r.get("model"))
    elif mode == "pipe":
        cf = os.path.join(ctx.workdir, "replay.in")
        open(cf, "w").write("%s\t%s\t%s\t%s\n" % (r["input_file"], r["base"], r["parser"], ",".join(r.get("skip", []))))
        print("impl :", vf.sh([drv, "pipe", cf], env=env_with(ASAN_OPTIONS=ASAN, UBSAN_OPTIONS=UBSAN,
                                                             C01_STACK_MB="8" if r.get("pass") == "plain8" else "64"))[1].strip())
    else:
        print(json.dumps(r, indent=1))
