"""C04 — the validator accepts valid models and rejects every rule violation.

proofs : Properties_C04.v (validate = [] <-> WF, every violated rule is cited, the traversal reaches every location,
         the units-cycle detector is total and exact; `_refuted` witnesses for the tree before the repairs)
tie    : worlds that are valid by construction + ONE injected fault per rule per location, built through the public
         API; real Validator issue multiset (level, reference rule) vs the extracted ValidDefs.validate;
         isValidXmlName / isCellmlIdentifier compared directly on byte strings
search : on the implementation: valid => 0 issues (DTD and XML issues included), fault => >= 1 ERROR citing the rule
"""
import collections
import json
import os
import re
import subprocess
import sys

import vf

sys.path.insert(0, os.path.join(vf.ROOT, "gen"))
import valid_gen as g  # noqa: E402
from valid_gen import (Model, Units, Item, ISrc, Comp, Var, Reset, E, T, Cm, CELLML_NS, MATHML_NS,  # noqa: E402,F401
                       add_equivalence)

DTD_PREFIX_RULE = "MATH_MATHML"

# ------------------------------------------------------------------------------------------------ known findings


def k_imported_children(case):
    """C04-imported-component-children: a fault in a component encapsulated by the target of a resolved component import"""
    return case["kind"] == "fault" and case["info"]["where"].startswith("child-of-imported-component")


def shared_import_sources_with_id(world):
    """tags of the ImportSource objects of model 0 that carry an id and serve >= 2 imported entities"""
    m = world[0]
    users = collections.Counter()
    for e in list(m.units) + m.all_comps():
        if e.imp is not None and e.imp[0].id != "":
            users[e.imp[0].tag] += 1
    return [t for t, n in users.items() if n >= 2]


def import_var_first(world):
    """the first component (pre-order) that holds a mapped variable is an imported component, and a later one is not"""
    cs = [c for c in world[0].all_comps() if any(v.eqs for v in c.vars)]
    return len(cs) >= 2 and cs[0].imp is not None and any(c.imp is None for c in cs[1:])


def k_shared_import_source_id(case):
    """C04-shared-import-source-id: a VALID world in which an ImportSource with a non-empty id is referenced by >= 2
    imported entities (one <import id=".."> element with several children) is reported with the duplicated-identifier
    XML_ID_ATTRIBUTE issue (the model of the current tree predicts it: only the oracle 'valid => 0 issues' fails)"""
    return case["kind"] == "valid" and bool(shared_import_sources_with_id(case["world"]))


KNOWN = {"C04-imported-component-children": k_imported_children,
         "C04-shared-import-source-id": k_shared_import_source_id}

# ------------------------------------------------------------------------------------------------ directed cases


def _cn(v, u="second", attrs=()):
    return E("cn", [T(v)], [(CELLML_NS, "units", u)] + list(attrs))


def _eq(lhs, rhs):
    return E("apply", [E("eq"), lhs, rhs])


def corpus():
    """hand-written worlds: (name, kind, info, world).  kind 'valid' or 'fault' (info['cite'] = rules of which one must
    be cited).  They are the minimised forms of everything that once disagreed, plus the unusual-but-legal constructs."""
    out = []

    def add(name, kind, world, cite=None, where="corpus"):
        out.append({"name": name, "kind": kind, "world": world,
                    "info": {"fault": "corpus:" + name, "where": where, "cite": cite or []}})

    # an <import> element with an id and two children (one ImportSource object shared by two units)
    m = Model("m")
    s = ISrc(1, "lib.cellml", "imp1")
    m.units = [Units("u1", "", (s, "a")), Units("u2", "", (s, "b"))]
    m.comps = [Comp(2, "c")]
    add("shared-import-source-with-id", "valid", [m])
    # the same import source serving a units and a component
    m = Model("m")
    s = ISrc(1, "lib.cellml", "imp1")
    m.units = [Units("u1", "", (s, "a"))]
    m.comps = [Comp(2, "c", imp=(s, "cc"))]
    add("shared-import-source-units-and-component", "valid", [m])

    def collide(mapid, connid="", mid=""):
        m = Model("m", mid)
        c1, c2 = Comp(1, "c"), Comp(2, "bc")
        c1.vars = [Var(3, "ab", "second", iface="public")]
        c2.vars = [Var(4, "a", "second", iface="public")]
        m.comps = [c1, c2]
        add_equivalence(m, 3, 4, mapid, connid)
        return [m]
    add("colliding-names-valid-ids", "valid", collide("map1", "conn1"))
    add("colliding-names-invalid-map-id", "fault", collide("1bad"), ["XML_ID_ATTRIBUTE"], "map_variables/colliding-name-concatenation")
    add("colliding-names-invalid-connection-id", "fault", collide("", "1bad"), ["XML_ID_ATTRIBUTE"], "connection/colliding-name-concatenation")
    add("colliding-names-duplicate-map-id", "fault", collide("dup", "", "dup"), ["XML_ID_ATTRIBUTE"], "duplicate/model+map_variables/colliding-name-concatenation")
    m = Model("m")
    cs = [Comp(1, "a"), Comp(2, "bc"), Comp(3, "ab"), Comp(4, "c")]
    for c, t, n in zip(cs, (5, 6, 7, 8), "pqrs"):
        c.vars = [Var(t, n, "second", iface="public")]
    m.comps = cs
    add_equivalence(m, 5, 6, "", "conn1")
    add_equivalence(m, 7, 8, "", "1badconn")
    add("colliding-connection-keys-invalid-id", "fault", [m], ["XML_ID_ATTRIBUTE"], "connection/colliding-component-names")

    # reset orders across a chain a ~ b ~ c
    def chain(ra, rb, order=1, swap=False):
        m = Model("m")
        cs = [Comp(1, "c1"), Comp(2, "c2"), Comp(3, "c3")]
        vs = [Var(11, "a", "second", iface="public"), Var(12, "b", "second", iface="public"), Var(13, "c", "second", iface="public")]
        for c, v in zip(cs, vs):
            c.vars = [v]
        m.comps = cs
        add_equivalence(m, 11, 12)
        add_equivalence(m, 12, 13)
        val = [E("math", [_cn("1")])]
        for (ci, o) in ((ra, order), (rb, order)):
            cs[ci].resets.append(Reset(o, vs[ci].tag, vs[ci].tag, val, val))
        return [m]
    add("reset-order-indirect-a-c", "fault", chain(0, 2), ["RESET_ORDER_UNIQUE"], "reset-order/indirect-variable/other-component")
    add("reset-order-direct-b-c-after-a", "fault", [_three_resets()], ["RESET_ORDER_UNIQUE"], "reset-order/direct-variable/other-component")
    add("reset-order-direct-a-b", "fault", chain(0, 1), ["RESET_ORDER_UNIQUE"], "reset-order/direct-variable/other-component")

    # MathML below qualifiers
    def mathc(expr, vars_=("x", "t")):
        m = Model("m")
        c = Comp(1, "c")
        c.vars = [Var(10 + i, n, "second") for i, n in enumerate(vars_)]
        c.math = [E("math", [_eq(E("ci", [T("x")]), expr)])]
        m.comps = [c]
        return [m]
    add("math-bvar-empty-ci", "fault", mathc(E("apply", [E("diff"), E("bvar", [E("ci", [])]), E("ci", [T("x")])])),
        ["MATH_CI_VARIABLE_REFERENCE"], "component-math/ci-empty/in-bvar")
    add("math-degree-cn-base16", "fault", mathc(E("apply", [E("root"), E("degree", [_cn("3", "second", [("", "base", "16")])]), E("ci", [T("x")])])),
        ["MATH_CN_BASE10"], "component-math/cn-base/in-degree")
    add("math-logbase-cn-type", "fault", mathc(E("apply", [E("log"), E("logbase", [_cn("3", "second", [("", "type", "rational")])]), E("ci", [T("x")])])),
        ["MATH_CN_FORMAT"], "component-math/cn-format-type/in-logbase")
    add("math-logbase-arity", "fault", mathc(E("apply", [E("log"), E("logbase", [E("apply", [E("sin"), E("ci", [T("x")]), E("ci", [T("x")])])]), E("ci", [T("x")])])),
        ["MATH_MATHML"], "component-math/arity-extra-operand/in-logbase")
    add("math-bvar-degree-valid", "valid", mathc(E("apply", [E("diff"), E("bvar", [E("ci", [T("t")]), E("degree", [_cn("2", "dimensionless")])]), E("ci", [T("x")])])))
    add("math-nested-qualifiers-valid", "valid", mathc(E("apply", [E("root"), E("degree", [E("apply", [E("log"), E("logbase", [_cn("2")]), E("ci", [T("t")])])]), E("ci", [T("x")])])))
    # ids on MathML elements that are not ASCII
    add("math-nonascii-id", "valid", mathc(E("ci", [T("t")], [("", "id", "é1")])))
    add("math-comment-in-ci", "valid", mathc(E("ci", [Cm("c"), T("t")])))
    add("math-comment-then-unknown-ci", "fault", mathc(E("ci", [Cm("c"), T("nope")])), ["MATH_CI_VARIABLE_REFERENCE"], "component-math/ci-unknown-variable-after-comment")
    add("math-diff-of-cn", "fault", mathc(E("apply", [E("diff"), E("bvar", [E("ci", [T("t")])]), _cn("1")])), ["MATH_MATHML"], "component-math/diff-operand-not-ci")
    add("math-diff-of-ci", "valid", mathc(E("apply", [E("diff"), E("bvar", [E("ci", [T("t")])]), E("ci", [T("x")])])))
    add("math-padded-ci", "valid", mathc(E("ci", [T("  t ")])))

    # unreachable equivalence listed after a public and a private one, on both sides (C19's repair)
    m = Model("m")
    A, B, C, P, Q, R = (Comp(i + 1, n) for i, n in enumerate("ABCPQR"))
    A.kids, B.kids, P.kids, Q.kids = [B], [C], [Q], [R]
    m.comps = [A, P]
    for c, t, n, i in ((A, 11, "a", "private"), (B, 12, "b", "public_and_private"), (C, 13, "c", "public"),
                       (P, 14, "p", "private"), (Q, 15, "q", "public_and_private"), (R, 16, "r", "public")):
        c.vars = [Var(t, n, "second", iface=i)]
    for a, b in ((12, 11), (12, 13), (15, 14), (15, 16), (12, 15)):
        add_equivalence(m, a, b)
    add("unreachable-after-public-and-private", "fault", [m], ["MAP_VARIABLES_ELEMENT"], "equivalence/unreachable/after-public-and-private")

    # faults inside imported items
    lib = Model("lib")
    lc, lk = Comp(20, "parent"), Comp(21, "child")
    lk.vars = [Var(22, "1bad", "second")]
    lc.kids = [lk]
    lib.comps = [lc]
    m = Model("m")
    m.comps = [Comp(1, "c", imp=(ISrc(2, "lib.cellml", "", True, 1), "parent"))]
    add("imported-component-child-bad-variable", "fault", [m, lib], ["VARIABLE_NAME_VALUE"], "child-of-imported-component/variable-name")
    lib = Model("lib")
    lc = Comp(20, "parent")
    lc.vars = [Var(23, "1bad", "second")]
    lib.comps = [lc]
    add("imported-component-bad-variable", "fault", [m, lib], ["VARIABLE_NAME_VALUE"], "imported-component/variable-name")
    lib = Model("lib")
    lib.units = [Units("lu", "", None, [Item("no_such_units")])]
    m = Model("m")
    m.units = [Units("u", "", (ISrc(2, "lib.cellml", "", True, 1), "lu"))]
    m.comps = [Comp(1, "c")]
    add("imported-units-missing-reference", "fault", [m, lib], ["UNIT_UNITS_REFERENCE"], "imported-units/unit-reference")
    # a units cycle that is only reachable through an import
    lib = Model("lib")
    lib.units = [Units("lu", "", None, [Item("lv")]), Units("lv", "", None, [Item("lu")])]
    add("imported-units-cycle", "fault", [m, lib], ["UNIT_UNITS_CIRCULAR_REFERENCE"], "imported-units/cycle")
    # deep encapsulation, variable in every level, equivalences parent-child all the way down
    m = Model("m")
    prev = None
    tag = 1
    top = None
    for d in range(5):
        c = Comp(tag, "lvl%d" % d)
        tag += 1
        v = Var(tag, "v", "volt", iface="public_and_private" if 0 < d < 4 else ("private" if d == 0 else "public"))
        tag += 1
        c.vars = [v]
        if prev is None:
            top = c
        else:
            prev.kids = [c]
            add_equivalence(m, prev.vars[0].tag, v.tag) if False else None
        prev = c
    m.comps = [top]
    cs = m.all_comps()
    for a, b in zip(cs, cs[1:]):
        add_equivalence(m, a.vars[0].tag, b.vars[0].tag)
    add("deep-encapsulation-chain", "valid", [m])
    m2 = _deepcopy(m)
    m2.all_comps()[4].vars[0].name = "9v"
    add("deep-encapsulation-bad-name-depth4", "fault", [m2], ["VARIABLE_NAME_VALUE"], "variable/encapsulated4/only/only")
    return out


def _deepcopy(x):
    import copy
    return copy.deepcopy(x)


def _three_resets():
    """a ~ b ~ c with resets on a (order 1), b (order 2) and c (order 2): b and c are directly equivalent, but the group
    is keyed by a, which c does not list"""
    m = Model("m")
    cs = [Comp(1, "c1"), Comp(2, "c2"), Comp(3, "c3")]
    vs = [Var(11, "a", "second", iface="public"), Var(12, "b", "second", iface="public"), Var(13, "c", "second", iface="public")]
    for c, v in zip(cs, vs):
        c.vars = [v]
    m.comps = cs
    add_equivalence(m, 11, 12)
    add_equivalence(m, 12, 13)
    val = [E("math", [E("cn", [T("1")], [(CELLML_NS, "units", "second")])])]
    for ci, o in ((0, 1), (1, 2), (2, 2)):
        cs[ci].resets.append(Reset(o, vs[ci].tag, vs[ci].tag, val, val))
    return m


# ------------------------------------------------------------------------------------------------ running

def parse_impl(line):
    """-> (Counter{(level, rule int): n} without DTD / XML issues, dtd, xml, err) or None for CRASH / TIMEOUT / garbage"""
    head = line.split(" | ")[0]
    m = re.match(r"issues=\{n=(\d+)(.*)\} dtd=(\d+) xml=(\d+) err=(\d+)", head)
    if not m:
        return None
    ms = collections.Counter()
    for t in m.group(2).split():
        lv, r, _ty = t.split("*")[0].split(":")
        ms[(lv, r)] += int(t.split("*")[1])
    return ms, int(m.group(3)), int(m.group(4)), int(m.group(5))


def parse_model(line):
    if line.startswith("PARSE-ERROR") or line == "<missing>":
        return None
    ms = collections.Counter()
    if line.strip() == "-":
        return ms
    for t in line.split():
        r, k = t.rsplit("*", 1)
        ms[("E", r)] += int(k)
    return ms


def run_sharded(exe, mode, lines, workdir, tag, timeout=3000):
    n = max(1, min(vf.NCPU, len(lines) // 8 or 1))
    procs = []
    for k in range(n):
        part = lines[k::n]
        p = os.path.join(workdir, "%s.%d.cases" % (tag, k))
        with open(p, "w") as f:
            f.write("".join(x + "\n" for x in part))
        procs.append((k, len(part), subprocess.Popen([exe, mode, p], stdout=subprocess.PIPE, stderr=subprocess.DEVNULL)))
    out = [None] * len(lines)
    for k, cnt, pr in procs:
        try:
            o = pr.communicate(timeout=timeout)[0].decode("utf-8", "replace").split("\n")
        except subprocess.TimeoutExpired:
            pr.kill()
            o = []
        for j in range(cnt):
            out[k + j * n] = o[j] if j < len(o) and o[j] != "" else "<missing>"
    return out


def evaluate(ctx, cases, drv, mdl, rules, tag, rule_cov, stats, max_report=5):
    """run both sides on the cases, compare, apply the oracle.  Returns number of problems reported."""
    num_of = {v: k for k, v in rules.items()}
    scripts = []
    for c in cases:
        g.SPELLING = c.get("spelling", 0)
        scripts.append(";".join(g.to_script(c["world"])))
    g.SPELLING = 0
    tokens = [g.to_tokens(c["world"]) for c in cases]
    import time
    t0 = time.time()
    impl = run_sharded(drv, "run", scripts, ctx.workdir, tag + ".impl")
    t1 = time.time()
    model = run_sharded(mdl, "run", tokens, ctx.workdir, tag + ".model")
    ctx.log("%s: %d cases, implementation %.0fs, model %.0fs" % (tag, len(cases), t1 - t0, time.time() - t1))
    reported = 0
    pending = []     # (case index, problems, impl core multiset) : classified after the loop
    mm = str(num_of.get("MATH_MATHML"))
    xr = "1"   # ReferenceRule::XML
    for i, c in enumerate(cases):
        il = impl[i]
        ml = model[i] if i < len(model) and model[i] != "" else "<missing>"
        pi = parse_impl(il)
        pm = parse_model(ml)
        problems = []
        names = lambda ms: sorted("%s:%s*%d" % (l, rules.get(r, r), k) for (l, r), k in ms.items())  # noqa: E731
        if pm is None:
            problems.append("model driver: %s" % ml[:200])
        if pi is None:
            problems.append("implementation: %s" % il[:200])
        cited = None
        if pi is not None and pm is not None:
            ims, dtd, xml, err = pi
            total = sum(ims.values())
            core = collections.Counter(ims)
            if dtd:
                core[("E", mm)] -= dtd
            core = collections.Counter({k: v for k, v in core.items() if v > 0 and k[1] != xr})
            if err:
                problems.append("the API script had %d rejected lines (generator / interpreter out of step)" % err)
            if core != pm:
                problems.append("CORRESPONDENCE: implementation %s (+%d DTD, %d XML) vs model %s" % (names(core), dtd, xml, names(pm)))
            if any(l != "E" for (l, _r) in ims):
                problems.append("ORACLE: an issue of the validator is not of level ERROR: %s" % names(ims))
            if c["kind"] == "corr":
                stats["corr"] += 1
                if pm:
                    stats["corr_rejected"] += 1
            elif c["kind"] == "valid":
                stats["valid"] += 1
                if total != 0:
                    problems.append("ORACLE valid => 0 issues: implementation reports %s (%d from the DTD pass, %d XML)" % (names(ims), dtd, xml))
            else:
                stats["fault"] += 1
                cite = c["info"]["cite"]
                cited = any(rules.get(r) in cite for (l, r) in ims if l == "E")
                for r in cite[:1]:
                    rule_cov[r]["injected"] += 1
                    rule_cov[r]["locations"][c["info"]["where"].split("/")[0]] += 1
                    if cited:
                        rule_cov[r]["detected"] += 1
                if not cited:
                    problems.append("ORACLE fault => an error citing %s: implementation reports %s" % ("/".join(cite), names(ims) or "nothing"))
        if problems:
            fid = None
            for kid, match in KNOWN.items():
                if match(c) and not any(p.startswith("CORRESPONDENCE") or p.startswith("model driver") or p.startswith("implementation:") for p in problems):
                    if kid == "C04-shared-import-source-id":
                        # exactly: one XML_ID_ATTRIBUTE error per shared id-carrying import source, nothing else
                        want = collections.Counter({("E", str(num_of.get("XML_ID_ATTRIBUTE"))): len(set(
                            e.imp[0].id for e in list(c["world"][0].units) + c["world"][0].all_comps()
                            if e.imp is not None and e.imp[0].tag in shared_import_sources_with_id(c["world"])))})
                        if pi is None or pi[0] != want:
                            continue
                    fid = kid
            if fid and ctx.known_finding(fid, "%s at %s: %s" % (c["info"]["fault"], c["info"]["where"], problems[0][:160])):
                stats["known"] += 1
                continue
            reported += 1
            stats["problems"] += 1
            pending.append((i, problems, core if (pi is not None and pm is not None) else None, il, ml))
    # which repair of fixes/C04-*.diff is missing from the tree, if the implementation behaves exactly as the model does
    # without it (information for the reader of the violation; it does not change the verdict)
    variants = [("0101", "C04-reset-order-connected-set"), ("1001", "C04-mathml-qualifier-children"),
                ("1100", "C04-id-map-name-pairs"), ("1111", "NONE: it behaves as if C04-shared-import-source-id WERE applied"),
                ("unfixed", "several C04 repairs")]
    if pending:
        pf = os.path.join(ctx.workdir, tag + ".pending.tokens")
        with open(pf, "w") as f:
            f.write("".join(tokens[i] + "\n" for (i, _p, _c, _il, _ml) in pending))
        vout = {}
        for bits, nm in variants:
            vout[nm] = vf.sh([mdl, "run", pf, bits], timeout=3000)[1].split("\n")
        classes = collections.Counter()
        for j, (i, problems, core, il, ml) in enumerate(pending):
            c = cases[i]
            cls = None
            if core is not None and any(p.startswith("CORRESPONDENCE") for p in problems):
                for bits, nm in variants:
                    if parse_model(vout[nm][j] if j < len(vout[nm]) else "<missing>") == core:
                        cls = nm
                        break
            if cls is None and c["info"]["fault"] == "corpus:math-nonascii-id" and "DTD" in " ".join(problems):
                cls = "C04-mathml-nonascii-id"
            if cls:
                problems.append("NOTE: the implementation behaves exactly as the model does WITHOUT the repair fixes/%s.diff" % cls)
            classes[cls or "unclassified"] += 1
            if j < max_report or (cls is None and j < 4 * max_report):
                name = "%s_%d.json" % (tag, j + 1)
                ctx.violation("C04 %s [%s @ %s]: %s" % (c["kind"], c["info"]["fault"], c["info"]["where"], "; ".join(problems)[:700]), name,
                              {"kind": c["kind"], "info": c["info"], "script": scripts[i], "tokens": tokens[i],
                               "impl": il, "model": ml, "problems": problems, "missing_repair": cls,
                               "rules": {k: v for k, v in rules.items()}})
        ctx.log("%s: problem classes: %s" % (tag, dict(classes)))
        ctx.notes.append("%s: problem classes %s" % (tag, dict(classes)))
    return reported


def sequences_check(ctx, drv, mdl, rules, gen, n_seq, stats):
    """ONE Validator instance, several validateModel calls: base world, the same Model object rebuilt with ONE fault, the
    same object repaired, a near copy (same names, other definitions) in a new object, the base again.  Every call is
    compared with the extracted validate of the world as it is at that moment (the model is a pure function)."""
    num_of = {v: k for k, v in rules.items()}
    mm = str(num_of.get("MATH_MATHML"))
    fault_names = [f for f, _ in g.FAULTS]
    seqs = []
    fi = 0
    tries = 0
    while len(seqs) < n_seq and tries < 6 * n_seq:
        tries += 1
        world = gen.world()
        f = fault_names[fi % len(fault_names)]
        fi += 1
        r = g.inject(world, f, ctx.rng, gen)
        if r is None:
            continue
        fw, info = r
        nc, changed = g.near_copy(world, ctx.rng)
        order = ctx.rng.random() < 0.5
        steps = []      # (world, text of the step)
        l1, nxt = g.to_script(world, with_next=True)
        steps.append((world, "@0;" + ";".join(l1), "base"))
        first, second = (fw, world) if order else (nc, world)
        l2, nxt = g.to_script(fw if order else world, first_slot=nxt, reuse_model0=0, with_next=True)
        steps.append(((fw if order else world), "@0;" + ";".join(l2), "fault in place" if order else "rebuilt in place"))
        l3, nxt = g.to_script(world if order else fw, first_slot=nxt, reuse_model0=0, with_next=True)
        steps.append(((world if order else fw), "@0;" + ";".join(l3), "repaired in place" if order else "fault in place"))
        l4, nxt2 = g.to_script(nc, first_slot=nxt, with_next=True)
        steps.append((nc, "@%d;" % nxt + ";".join(l4), "near copy (same names, %d units redefined) in a new object" % changed))
        l5, nxt3 = g.to_script(world, first_slot=nxt2, reuse_model0=nxt, with_next=True)
        steps.append((world, "@%d;" % nxt + ";".join(l5), "the near copy's object rebuilt as the base"))
        seqs.append({"steps": steps, "info": info})
    lines = ["|".join(t for (_w, t, _n) in sq["steps"]) for sq in seqs]
    impl = run_sharded(drv, "seq", lines, ctx.workdir, "seq.impl")
    toks = [g.to_tokens(w) for sq in seqs for (w, _t, _n) in sq["steps"]]
    model = run_sharded(mdl, "run", toks, ctx.workdir, "seq.model")
    k = 0
    bad = 0
    nval = 0
    for i, sq in enumerate(seqs):
        parts = impl[i].split(" || ")
        for j, (w, text, name) in enumerate(sq["steps"]):
            ml = model[k]
            k += 1
            nval += 1
            il = parts[j] if j < len(parts) else "<missing: %s>" % impl[i][:80]
            pi, pm = parse_impl(il), parse_model(ml)
            ok = False
            if pi is not None and pm is not None:
                ims, dtd, xml, err = pi
                core = collections.Counter(ims)
                if dtd:
                    core[("E", mm)] -= dtd
                core = collections.Counter({kk: v for kk, v in core.items() if v > 0 and kk[1] != "1"})
                ok = (core == pm) and err == 0
            if not ok:
                bad += 1
                stats["problems"] += 1
                if bad <= 3:
                    ctx.violation("C04 sequence on ONE Validator, call %d (%s) after [%s]: implementation %s vs model %s" %
                                  (j + 1, name, ", ".join(n for (_w, _t, n) in sq["steps"][:j]), il[:160], ml[:160]),
                                  "seq_%d.json" % bad,
                                  {"kind": "seq", "info": sq["info"], "failing_call": j + 1, "steps": [n for (_w, _t, n) in sq["steps"]],
                                   "script": lines[i], "tokens": [g.to_tokens(w2) for (w2, _t, _n) in sq["steps"]],
                                   "impl": impl[i], "model": model[k - j - 1:k - j - 1 + len(sq["steps"])], "rules": dict(rules)})
                break
        else:
            continue
        k += len(sq["steps"]) - j - 1
    stats["sequence_calls"] += nval
    ctx.cov["evaluations"] += nval
    ctx.log("sequences: %d sequences on one Validator each (%d validateModel calls), %d disagreements" % (len(seqs), nval, bad))
    return len(seqs), bad


def chains_check(ctx, drv, mdl, rules, rule_cov, stats, quick):
    """units compatibility through chains of user-defined units of depth 1-4 with exponents != 1 on every level: the
    compatible pair must validate with 0 issues; one changed exponent at ANY level (or a wrong flat partner) must be reported"""
    r = ctx.rng
    grid = [(2, 1), (-1, 1), (3, 1), (1, 2), (-2, 1), (1, 1)]
    cases = []
    hist = collections.Counter()
    for depth in (1, 2, 3, 4):
        combos = set()
        combos.add(tuple([(2, 1)] * depth))
        while len(combos) < min(8 if quick else 40, len(grid) ** depth):
            combos.add(tuple(r.choice(grid) for _ in range(depth)))
        for exps in sorted(combos):
            sb = r.random() < 0.4
            outer = "outer exponent != 1" if any(e != (1, 1) for e in exps[1:]) else "outer exponents 1"
            cases.append({"kind": "valid", "world": g.chain_world(list(exps), second_base=sb),
                          "info": {"fault": "units-chain", "where": "units-chain/depth%d/compatible" % depth, "cite": []}})
            hist["depth %d, %s: compatible" % (depth, outer)] += 1
            for lvl in range(1, depth + 1):
                cases.append({"kind": "fault", "world": g.chain_world(list(exps), fault_level=lvl, second_base=sb),
                              "info": {"fault": "units-chain", "where": "units-chain/depth%d/exponent-of-level-%d-changed" % (depth, lvl),
                                       "cite": ["MAP_VARIABLES_ELEMENT"]}})
                hist["depth %d, %s: level %d changed" % (depth, outer, lvl)] += 1
            cases.append({"kind": "fault", "world": g.chain_world(list(exps), partner_wrong=True, second_base=sb),
                          "info": {"fault": "units-chain", "where": "units-chain/depth%d/partner-exponent-wrong" % depth, "cite": ["MAP_VARIABLES_ELEMENT"]}})
            hist["depth %d, %s: partner wrong" % (depth, outer)] += 1
    n = evaluate(ctx, cases, drv, mdl, rules, "chains", rule_cov, stats)
    ctx.log("units chains: %d directed cases, problems %d" % (len(cases), n))
    return len(cases), dict(hist)


def directed_math_conn_check(ctx, drv, mdl, rules, rule_cov, stats):
    """(a) arity sweep: every operator x 0..4 operands, in component math and in reset test/reset values (verdict: the
    model, i.e. MathDefs.val_node); (b) attribute spellings of math strings set through the API; (c) every position of the
    faulty mapping in a variable's equivalence list, next to a placeholder variable of an imported component"""
    import itertools
    cases = []
    for where in ("component", "test_value", "reset_value"):
        for op in g.SWEEP_OPERATORS:
            for n in range(0, 5):
                cases.append({"kind": "corr", "world": g.arity_world(op, n, where),
                              "info": {"fault": "arity-sweep", "where": "arity-sweep/%s/%s/%d" % (where, op, n), "cite": []}})
    nsweep = len(cases)
    for (name, kind, cite, world) in g.spelling_worlds():
        for sp in range(g.N_SPELLINGS):
            cases.append({"kind": kind, "world": world, "spelling": sp,
                          "info": {"fault": "spelling/" + name, "where": "attribute-spelling-%d/%s" % (sp, name), "cite": cite}})
    nspell = len(cases) - nsweep
    for oa in itertools.permutations(["w", "c", "b"]):
        for ob in (["w", "a"], ["a", "w"]):
            for faulty in (True, False):
                cases.append({"kind": "fault" if faulty else "valid", "world": g.eqlist_world(list(oa), ob, faulty),
                              "info": {"fault": "equivalence-list-order", "where": "equivalence-list/%s/%s" % ("".join(oa), "".join(ob)),
                                       "cite": ["MAP_VARIABLES_ELEMENT"] if faulty else []}})
    neq = len(cases) - nsweep - nspell
    before = stats["corr_rejected"]
    n = evaluate(ctx, cases, drv, mdl, rules, "directed", rule_cov, stats)
    ctx.log("directed: arity sweep %d (%d rejected by the model), attribute spellings %d, equivalence-list orders %d, problems %d" %
            (nsweep, stats["corr_rejected"] - before, nspell, neq, n))
    return len(cases), {"arity_sweep": nsweep, "arity_sweep_rejected": stats["corr_rejected"] - before,
                        "attribute_spellings": nspell, "equivalence_list_orders": neq}


def numbers_check(ctx, drv, mdl, rules, rule_cov, stats):
    """every near-miss / boundary number string in every position that takes a number; expected verdict from the
    automata of C16 (LC.NumDefs.real_dfa / int_dfa), correspondence with the extracted validate"""
    cands = g.num_candidates()
    nf = os.path.join(ctx.workdir, "num.hex")
    with open(nf, "w") as f:
        f.write("".join((c.encode("utf-8").hex() or "-") + "\n" for c in cands))
    out = vf.sh([mdl, "numdfa", nf], timeout=600)[1].split("\n")
    table = {c: (out[i].split()[0] == "1", out[i].split()[1] == "1") for i, c in enumerate(cands)}
    dfa = lambda t: table[t] if t in table else _py_dfa(t)  # noqa: E731
    cases = []
    hist = collections.Counter()
    for pos in ("initial", "cn", "mantissa", "exponent", "prefix"):
        for sx in cands:
            if pos != "initial" and pos != "prefix" and any(ord(ch) < 32 and ch not in "\t\n" for ch in sx):
                continue
            okv = g.num_expected(pos, sx, dfa, ("x", "y"))
            hist["%s/%s" % (pos, "accept" if okv else "reject")] += 1
            cases.append({"kind": "valid" if okv else "fault", "world": g.number_world(pos, sx),
                          "info": {"fault": "number/" + pos, "where": "number-" + pos + "/" + repr(sx), "cite": [] if okv else [g.NUM_RULE[pos]]}})
    n = evaluate(ctx, cases, drv, mdl, rules, "num", rule_cov, stats)
    ctx.log("numbers: %d strings x 5 positions = %d cases, problems %d, %s" % (len(cands), len(cases), n, dict(hist)))
    return len(cases), dict(hist)


def _py_dfa(t):
    return (re.fullmatch(r"-?(\d+\.?\d*|\.\d+)([eE][+-]?\d+)?", t) is not None, re.fullmatch(r"[+-]?\d+", t) is not None)


def names_check(ctx, drv, mdl, quick):
    """isValidXmlName / isCellmlIdentifier: model vs implementation on byte strings (complete UTF-8 sequences with
    arbitrary continuation bytes, every single byte, every pair of bytes in the thorough tier)"""
    r = ctx.rng
    strs = [bytes([b]) for b in range(1, 256)]
    strs += [bytes([a, b]) for a in range(1, 256) for b in ([0x2D, 0x30, 0x41, 0x5F, 0x80, 0xB7, 0xBF] if quick else range(1, 256))
             if not (a >= 0xE0)]          # a 3/4-byte lead with one following byte reads past the end of the string
    heads = [b"a", b"_", b":", b"1", b"-", b"."]
    for lead in list(range(0xC0, 0xE0)):
        for c in ([0x80, 0x96, 0x97, 0x98, 0xB6, 0xB7, 0xB8, 0xBF] if quick else range(0x80, 0xC0)):
            for h in heads[:2]:
                strs.append(bytes([lead, c]))
                strs.append(h + bytes([lead, c]))
    for _ in range(4000 if quick else 30000):
        k = r.random()
        if k < 0.5:
            lead = r.randrange(0xE0, 0xF0)
            s = bytes([lead, r.randrange(0x80, 0xC0), r.randrange(0x80, 0xC0)])
        elif k < 0.8:
            lead = r.randrange(0xF0, 0xF8)
            s = bytes([lead, r.randrange(0x80, 0xC0), r.randrange(0x80, 0xC0), r.randrange(0x80, 0xC0)])
        else:
            s = bytes(r.choice(b"abzAZ_09:-. \xc2\xb7") for _ in range(r.randrange(0, 6)))
        strs.append(s if r.random() < 0.5 else r.choice(heads) + s)
    # boundaries of every range of isNameStartChar / isNameChar (packed UTF-8 values, +-1)
    for v in [0xC380, 0xC396, 0xC398, 0xC3B6, 0xC3B8, 0xCBBF, 0xCDB0, 0xCDBD, 0xCDBF, 0xE1BFBF, 0xE2808C, 0xE2808D, 0xE281B0,
              0xE2868F, 0xE2B080, 0xE2BFAF, 0xE38081, 0xED9FBF, 0xEFA480, 0xEFB78F, 0xEFB7B0, 0xEFBFBD, 0xF0908080, 0xF3AFBFBF,
              0xC2B7, 0xCC80, 0xCDAF, 0xE280BF, 0xE28180]:
        for d in (-1, 0, 1):
            w = v + d
            b = w.to_bytes((w.bit_length() + 7) // 8, "big")
            if all(x != 0 for x in b):
                strs += [b, b"a" + b]
    strs.append(b"")
    strs = [s for s in strs if 0 not in s]
    hexes = [s.hex() or "-" for s in strs]
    impl = run_sharded(drv, "names", hexes, ctx.workdir, "names.impl")
    nf = os.path.join(ctx.workdir, "names.hex")
    with open(nf, "w") as f:
        f.write("".join(h + "\n" for h in hexes))
    rc, mo = vf.sh([mdl, "xmlname", nf], timeout=3000)
    model = mo.split("\n")
    bad = 0
    for i, s in enumerate(strs):
        if impl[i] != (model[i] if i < len(model) else "<missing>"):
            bad += 1
            if bad <= 3:
                ctx.violation("C04 names: %r: isValidXmlName isCellmlIdentifier impl=%s model=%s" % (s, impl[i], model[i] if i < len(model) else "<missing>"),
                              "names_%d.json" % bad, {"kind": "names", "hex": s.hex(), "impl": impl[i], "model": model[i] if i < len(model) else None})
    ctx.cov["evaluations"] += len(strs)
    return len(strs), bad


def run(ctx):
    quick = ctx.quick()
    ctx.proofs()
    ctx.assumptions += [
        "A-xml (i): libxml2 turns the math strings written by the generator back into the trees the model is given (the text -> tree step is not modelled; 'XML' issues do not exist in the model and must not occur on generated cases)",
        "A-xml (iv): the W3C MathML DTD pass is not modelled: issues whose description starts with 'W3C MathML DTD error' are counted separately; on valid cases there must be none",
        "validateUnits leaves the epoch of a followed import in its history (push without pop); the model's history is scoped, which differs observably only when an import source WITH a model has an empty (or ':this:') url, or a library model imports back into a model on the path: neither is generated",
        "sequences: one Validator instance is re-used across validateModel calls (base, fault in place, repair in place, near copy with the same names, rebuilt) and each call is compared with the model of the world as it is then",
        "xmlParseURI is not modelled: its verdict on an import's href is an input of the model (is_url_ok); generated hrefs are a fixed set whose verdict was measured",
        "doubles: unit exponents are small dyadic rationals and multipliers powers of ten, so the validator's double arithmetic on them is exact (as in C08)",
        "unit compatibility inside validateEquivalenceUnits is C08's model (LC.UnitsDefs.val_equiv), a parameter of the C04 theorems",
        "the stack exhaustion of updateBaseUnitCount on cyclic units used by connected variables (C01-K3) is never generated (cyclic units are not used by connected variables)",
    ]
    build = vf.build_repo("plain")
    drv = vf.compile_driver(build, os.path.join(vf.ROOT, "harness/c04_driver.cpp"))
    mdl = vf.ocaml_driver("valid")
    rules = {}
    for ln in vf.sh([mdl, "rules"])[1].strip().split("\n"):
        a, b = ln.split()
        rules[a] = b
    missing = [b for a, b in rules.items() if not a.isdigit()]
    if missing:
        ctx.violation("rules cited by the model are no longer enumerators of ReferenceRule: %s" % missing, "rules_missing.json",
                      {"missing": missing}, no_input=True)
    # the driver prints rule ints: complete the int -> name table from the regenerated Coq table for reporting
    txt = open(os.path.join(vf.COQ, "gen", "RuleTable.v")).read()
    allnames = re.findall(r'"([A-Z_0-9]+)"', txt.split("Definition rule_names", 1)[1].split("].", 1)[0])
    for i, nme in enumerate(allnames):
        rules.setdefault(str(i), nme)

    rule_cov = collections.defaultdict(lambda: {"injected": 0, "detected": 0, "locations": collections.Counter()})
    stats = collections.Counter()

    # ---- names
    nstr, nbad = names_check(ctx, drv, mdl, quick)
    ctx.log("names: %d byte strings, %d disagreements" % (nstr, nbad))

    # ---- corpus
    cases = corpus()
    evaluate(ctx, cases, drv, mdl, rules, "corpus", rule_cov, stats)
    ctx.log("corpus: %d directed cases, %s" % (len(cases), dict(stats)))
    ncorpus = len(cases)

    # ---- numbers: systematic near-miss strings in every number position
    nnum, numhist = numbers_check(ctx, drv, mdl, rules, rule_cov, stats)

    # ---- arity sweep, attribute spellings, equivalence-list orders
    ndir, dirhist = directed_math_conn_check(ctx, drv, mdl, rules, rule_cov, stats)

    # ---- units compatibility through deep chains
    nchain, chainhist = chains_check(ctx, drv, mdl, rules, rule_cov, stats, quick)

    # ---- sequences on one Validator instance
    gen0 = g.Gen(ctx.rng)
    gen0.invalid_uris = g.INVALID_URIS
    nseq, seqbad = sequences_check(ctx, drv, mdl, rules, gen0, 140 if quick else 1400, stats)

    # ---- generated
    n_worlds = 260 if quick else 2600     # thorough: 15 600 cases (31 200 took 24 min on a loaded machine)
    per_world = 5
    gen = g.Gen(ctx.rng)
    gen.invalid_uris = g.INVALID_URIS
    fault_names = [f for f, _ in g.FAULTS]
    cases = []
    fi = 0
    loc_hist = collections.Counter()
    size_hist = collections.Counter()
    chain_hist = collections.Counter()
    for w in range(n_worlds):
        world = gen.world()
        cases.append({"kind": "valid", "world": world, "info": {"fault": "none", "where": "-", "cite": []}})
        m = world[0]
        size_hist["components=%d" % min(len(m.all_comps()), 6)] += 1
        size_hist["world=%d" % len(world)] += 1
        for ch in getattr(m, "chains", []):
            outer = any(e != (1, 1) for e in ch["exps"][1:])
            chain_hist["valid: chain depth %d%s vs %s partner" % (ch["depth"], ", outer exponent != 1" if outer else "", ch["partner_kind"])] += 1
        if import_var_first(world):
            chain_hist["valid: mapped variable of an imported component first in traversal order"] += 1
        size_hist["depth=%d" % max([0] + [int(g.comp_class(m, c).split("/")[0][12:] or 0) if g.comp_class(m, c).startswith("enc") else 0 for c in m.all_comps()])] += 1
        tried = 0
        made = 0
        while made < per_world and tried < 3 * len(fault_names):
            f = fault_names[fi % len(fault_names)]
            fi += 1
            tried += 1
            r = g.inject(world, f, ctx.rng, gen)
            if r is None:
                continue
            fw, info = r
            cases.append({"kind": "fault", "world": fw, "info": info})
            if "chain" in info:
                chain_hist["fault: exponent changed at level %d of a chain of depth %d" % (info["chain"]["level"], info["chain"]["depth"])] += 1
            if info["fault"] in ("equivalence-unreachable", "interface-insufficient", "equivalence-units", "equivalence-parentless") and import_var_first(fw):
                chain_hist["fault: connection fault AFTER a mapped variable of an imported component"] += 1
            loc_hist[info["where"].split("/")[0]] += 1
            made += 1
    ctx.log("generated %d cases" % len(cases))
    nprob = evaluate(ctx, cases, drv, mdl, rules, "gen", rule_cov, stats)
    ctx.log("generated: %d worlds, %d cases, problems %d, %s" % (n_worlds, len(cases), nprob, dict(stats)))

    seen = set()
    nontrivial = 0
    for c in cases:
        if c["kind"] == "fault":
            h = hash(g.to_tokens(c["world"]))
            if h not in seen:
                seen.add(h)
                nontrivial += 1
    ctx.cov["evaluations"] += len(cases) + ncorpus + nnum + nchain + ndir
    ctx.cov["distinct_nontrivial"] = nontrivial
    ctx.cov["rule"] = ("a case is a world (model + the models attached to its import sources) built through the public API and validated by "
                       "Validator::validateModel and by the extracted ValidDefs.validate; non-trivial = a valid world with exactly one injected "
                       "fault (distinct by the canonical token text of the world); valid worlds are counted in evaluations only")
    ctx.cov["rule_coverage"] = {r: {"injected": v["injected"], "detected": v["detected"], "locations": dict(v["locations"])}
                                for r, v in sorted(rule_cov.items())}
    ctx.cov["input_distribution"] = {"cases": dict(stats), "fault_location_classes": dict(loc_hist), "world_shapes": dict(size_hist),
                                     "units_chains_and_import_order": dict(chain_hist), "units_chains_directed": chainhist, "directed_math_and_connections": dirhist,
                                     "name_strings": nstr, "corpus_cases": ncorpus, "number_cases": numhist,
                                     "sequences_on_one_validator": nseq}
    ctx.cov["samples"] = [cases[0] and g.to_tokens(cases[0]["world"])[:400], json.dumps(cases[1]["info"]) if len(cases) > 1 else "",
                          json.dumps(cases[-1]["info"])]
    ctx.cov["traces_validated_against_impl"] = len(cases) + ncorpus + nstr + nnum + stats["sequence_calls"]
    tbl = ", ".join("%s %d/%d" % (r, v["detected"], v["injected"]) for r, v in sorted(rule_cov.items()))
    ctx.log("rule coverage (detected/injected): " + tbl)


def replay(ctx, path):
    r = json.load(open(path))
    build = vf.build_repo("plain")
    drv = vf.compile_driver(build, os.path.join(vf.ROOT, "harness/c04_driver.cpp"))
    mdl = vf.ocaml_driver("valid")
    if r.get("kind") == "names":
        cf = os.path.join(ctx.workdir, "replay.hex")
        open(cf, "w").write((r["hex"] or "-") + "\n")
        print("impl  (isValidXmlName isCellmlIdentifier):", vf.sh([drv, "names", cf])[1].strip())
        print("model (is_xml_name is_ident)            :", vf.sh([mdl, "xmlname", cf])[1].strip())
        return
    if r.get("kind") == "seq":
        sf = os.path.join(ctx.workdir, "replay.seq")
        tf = os.path.join(ctx.workdir, "replay.seq.tokens")
        open(sf, "w").write(r["script"] + "\n")
        open(tf, "w").write("".join(t + "\n" for t in r["tokens"]))
        print("case : sequence on ONE Validator;", json.dumps(r.get("info")), "failing call:", r.get("failing_call"))
        io = vf.sh([drv, "seq", sf])[1].strip().split(" || ")
        mo = vf.sh([mdl, "run", tf])[1].strip().split("\n")
        for j, nme in enumerate(r["steps"]):
            print("call %d (%s)\n   impl : %s\n   model: %s" % (j + 1, nme, io[j] if j < len(io) else "-", mo[j] if j < len(mo) else "-"))
        return
    sf = os.path.join(ctx.workdir, "replay.script")
    tf = os.path.join(ctx.workdir, "replay.tokens")
    open(sf, "w").write(r["script"] + "\n")
    open(tf, "w").write(r["tokens"] + "\n")
    print("case :", r.get("kind"), json.dumps(r.get("info")))
    out = vf.sh([drv, "describe", sf])[1].strip()
    parts = out.split(" | ")
    print("impl :", parts[0])
    for d in parts[1:]:
        rr, h = d.split(":", 1)
        print("        %s: %s" % (r.get("rules", {}).get(rr, rr), bytes.fromhex(h).decode("utf-8", "replace").replace("\n", " ")[:300]))
    mo = vf.sh([mdl, "run", tf])[1].strip()
    print("model:", " ".join("%s*%s" % (r.get("rules", {}).get(t.rsplit("*", 1)[0], t.rsplit("*", 1)[0]), t.rsplit("*", 1)[1]) if t != "-" else "-" for t in mo.split()))
    print("script:")
    for ln in r["script"].split(";"):
        print("   ", ln)
