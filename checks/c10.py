"""C10 — equals() is a true equivalence relation that sees every attribute.

proofs : Properties_C10.v  (greedy matching = permutation up to the element relation; the repaired equals is the
         specification relation `sim`, hence reflexive / symmetric / transitive / permutation invariant / count
         sensitive / detects every single mutation; `_refuted` witnesses and `_partial` theorems for the code as it
         is: no count test for variables, containsComponent instead of a matching)
tie    : random entity trees over a tiny alphabet are built on real objects through the public API
         (harness/common/script.hpp), dumped back through public getters (must be the intended tree) and compared
         with equals() in both directions; the same trees go through the extracted model (four instances)
search : reflexivity, symmetry, transitivity on triples, permutation invariance, count sensitivity and detection of
         every single mutation are evaluated on the implementation's own answers
"""
import json
import multiprocessing
import os
import random
import subprocess
import sys

import vf

sys.path.insert(0, os.path.join(vf.ROOT, "gen"))
import equals_gen as eg  # noqa: E402
from script_gen import ScriptBuilder  # noqa: E402

KINDS = ["M", "M", "M", "M", "C", "C", "C", "U", "V", "R", "I"]
KF_VARS = "C10-variables-count"
KF_EPS = "C10-abs-epsilon"
TOL = "tolerance"      # values exactly one unit in the last place apart: the documented tolerance, no claim is made
FULL_GROUP_MUTANTS = 6


# --------------------------------------------------------------------------- cases

def make_line(roots, queries, key, ids=None, equivalences=0, own=None):
    """one case line: script | root slots | queries | serialised trees.
    roots: (role, description, tree, spec); spec None = build the tree as fresh objects;
    spec (k, path) = the object already built at that path inside root k (a parented sub-object).
    The choices of the emission (which of several equivalent API calls; which units OBJECT a variable holds) are drawn
    per root from Random("<key>/<id of the root>"), so that a replay restricted to some roots makes the same choices."""
    b = ScriptBuilder(check=False)
    slots, recs = [], []
    ids = list(range(len(roots))) if ids is None else ids
    for n, (role, desc, t, spec) in enumerate(roots):
        if spec is None:
            rec = {}
            slots.append(eg.emit(b, t, random.Random("%s/%s" % (key, ids[n])), rec=rec))
            recs.append(rec)
        else:
            slots.append(recs[spec[0]][spec[1]][1])
            recs.append({})
    # variable equivalences on the exact copy (root 1): equals must not look at them
    if equivalences and len(recs) > 1:
        rng = random.Random("%s/eq" % key)
        vs = sorted(set(sl for pth, (t, sl) in recs[1].items() if t[0] == 'V' and len(pth) >= 2 and pth[-2] == 'var'))
        for _ in range(equivalences):
            if len(vs) >= 2:
                v1, v2 = rng.sample(vs, 2)
                b.cmd("addequivalence", v1, v2)
    if own is not None:
        for k, v in b.__dict__.get("own", {}).items():
            own[k] = own.get(k, 0) + v
    return "%s|%s|%s|%s" % (b.text(), " ".join(map(str, slots)), " ".join("%d,%d" % q for q in queries),
                            ";".join(eg.ser(r[2]) for r in roots))


def totuple(x):
    return tuple(totuple(y) for y in x) if isinstance(x, list) else x


def corpus_case(n, trees):
    """a hand-written group of trees (corpus/C10.json): every ordered pair is asked"""
    roots = [("corpus", "corpus[%d][%d]" % (n, k), totuple(t), None) for k, t in enumerate(trees)]
    queries = [(i, j) for i in range(len(roots)) for j in range(len(roots))]
    own = {}
    return {"seed": "corpus-%d" % n, "kind": "corpus", "roots": roots, "ng": len(roots), "queries": queries,
            "line": make_line(roots, queries, "corpus-%d" % n, own=own), "own": own}


def build_case(seed, mutcap):
    """roots: [0] original, [1] exact copy (with variable equivalences added), [2] shuffled copy, then mutants / others.
    The first `ng` roots form the full group: every ordered pair (and the diagonal) is queried."""
    rng = random.Random(seed)
    g = eg.Gen(rng, tiny=0.02 if rng.random() < 0.85 else 0.3)
    kind = rng.choice(KINDS)
    o = g.entity(kind)
    roots = [("orig", "", o, None), ("copy", "", o, None), ("shuffle", "", g.shuffled(o), None)]
    muts = list(g.mutations(o))
    rng.shuffle(muts)
    muts = muts[:mutcap]
    inner = muts[:FULL_GROUP_MUTANTS]
    for d, t in inner:
        roots.append(("mut", d, t, None))
    if inner:
        d, t = inner[0]
        roots.append(("mutshuffle", d, g.shuffled(t), None))
        # a second mutation on top of the first: two steps away from the original
        m2 = list(g.mutations(t))
        if m2:
            d2, t2 = rng.choice(m2)
            roots.append(("mut2", d + " ; " + d2, t2, None))
    roots.append(("other", "", g.entity(kind), None))
    roots.append(("other", "", g.entity(rng.choice(KINDS)) if rng.random() < 0.5 else g.entity(kind), None))
    ng = len(roots)
    for d, t in muts[FULL_GROUP_MUTANTS:]:
        roots.append(("mut", d, t, None))
    queries = [(i, j) for i in range(ng) for j in range(ng)]
    for k in range(ng, len(roots)):
        queries += [(0, k), (k, 0), (2, k), (k, 2), (k, k)]
    # a parented sub-object of the original against a free-standing build of the same subtree
    rec = {}
    eg.emit(ScriptBuilder(check=False), o, random.Random(0), rec=rec)
    def stable(p):     # built on every emission (shared reset variables and units set by name are not)
        return p != () and "rvar" not in p and "rtest" not in p and all(
            i + 1 < len(p) and isinstance(p[i + 1], int) for i in range(len(p)) if p[i] == "units")
    paths = sorted(p for p in rec if stable(p))
    if paths:
        pth = rng.choice(paths)
        st = eg.subtree(o, pth)
        n = len(roots)
        roots.append(("sub", "/".join(map(str, pth)), st, (0, pth)))
        roots.append(("subcopy", "/".join(map(str, pth)), st, None))
        queries += [(n, n + 1), (n + 1, n), (n, n), (n + 1, n + 1)]
    neq = rng.choice([0, 0, 1, 3])
    own = {}
    return {"seed": seed, "kind": kind, "roots": roots, "ng": ng, "queries": queries, "neq": neq,
            "line": make_line(roots, queries, seed, equivalences=neq, own=own), "own": own}


# --------------------------------------------------------------------------- known-finding matchers (over the case)

def varcount_class(a, b):
    """some component of a and some component of b hold different numbers of variables"""
    ca, cb = eg.var_counts(a), eg.var_counts(b)
    return any(x != y for x in ca for y in cb)


def epsilon_class(a, b):
    """some exponent/multiplier of a and one of b are different values at most DBL_EPSILON apart"""
    da, db = set(eg.doubles_of(a)), set(eg.doubles_of(b))
    return any(x != y and abs(eg.dval(x) - eg.dval(y)) <= eg.EPS for x in da for y in db)


def oneulp_class(a, b):
    """some exponent/multiplier of a and one of b are exactly one unit in the last place apart"""
    da, db = set(eg.doubles_of(a)), set(eg.doubles_of(b))
    return any(x != y and (eg.dval(x) < 0) == (eg.dval(y) < 0) and eg.ulps(eg.dval(x), eg.dval(y)) == 1 for x in da for y in db)


def ulp_step(desc):
    """for a mutation of an exponent / multiplier: (class, k) — class 'abs' (|old-new| <= DBL_EPSILON: known finding),
    'k1' (one ulp: tolerance), 'k2'..'k4', 'far'; None for other mutations"""
    if "@" not in desc or ";" in desc:
        return None
    old, new = desc.split("@", 1)[1].split(">")
    x, y = (eg.dval(tuple(int(v) for v in t.split("^"))) for t in (old, new))
    if abs(x - y) <= eg.EPS:
        return "abs"
    if (x < 0) != (y < 0):
        return "far"
    k = eg.ulps(x, y)
    return "k%d" % k if k <= 4 else "far"


# --------------------------------------------------------------------------- evaluation of one case

def field(line, key):
    for t in line.split():
        if t.startswith(key + "="):
            return t[len(key) + 1:]
    return None


def eval_case(case, il, ml, out):
    """il / ml: implementation and model output lines.  Appends problems to out['bad'], findings to out['kf']."""
    roots, queries, ng = case["roots"], case["queries"], case["ng"]
    trees = [r[2] for r in roots]

    def problem(what, involved, extra=None):
        out["bad"].append({"what": what, "seed": case["seed"], "involved": involved, "extra": extra})

    parts = il.split(" ")
    if len(parts) != 3 or len(parts[0]) != len(queries) or set(parts[0]) - set("01"):
        problem("implementation did not answer: %s" % il[:200], [])
        return
    bits = parts[0]
    hashes = parts[1].split(",")
    if "1" in parts[2]:
        k = parts[2].index("1")
        problem("ORACLE x.equals(nullptr) is true (root %d)" % k, [k])
    for k, t in enumerate(trees):
        if k >= len(hashes) or hashes[k] != eg.fnv1a(eg.ser(t)):
            problem("the objects built through the API are not the intended tree (root %d, read back through getters)" % k, [k])
            return
    now, pinned, vc, vcu, ideal = (field(ml, k) for k in ("now", "pinned", "vc", "vcu", "ideal"))
    if None in (now, pinned, vc, vcu, ideal) or len(now) != len(queries):
        problem("model did not answer: %s" % ml[:200], [])
        return
    e = {}
    corr = {}         # query -> does the unrepaired model give the implementation's answer (impl != model)
    deviant = {}      # query -> known finding id that explains impl != ideal
    for n, q in enumerate(queries):
        e[q] = bits[n] == "1"
        a, b = trees[q[0]], trees[q[1]]
        if bits[n] != now[n]:
            note = " (hint: the model of the unrepaired ComponentEntity::doEquals gives the implementation's answer here; is " \
                   "fixes/C10-component-matching.diff applied to this tree?)" if bits[n] == pinned[n] else ""
            problem("correspondence: equals(%s, %s) impl=%s model=%s%s" % (q[0], q[1], bits[n], now[n], note), [q[0], q[1]],
                    {"query": q, "impl": bits[n], "now": now[n], "pinned": pinned[n], "vc": vc[n], "ideal": ideal[n],
                     "class": "corr-pinned" if bits[n] == pinned[n] else "corr-other"})
            corr[q] = bits[n] == pinned[n]
            continue
        if bits[n] != ideal[n]:
            # the chain  code as it is -> + variable count test -> - absolute epsilon -> exact comparison of doubles
            steps = []
            if now[n] != vc[n]:
                steps.append((KF_VARS, varcount_class(a, b)))
            if vc[n] != vcu[n]:
                steps.append((KF_EPS, epsilon_class(a, b)))
            if vcu[n] != ideal[n]:
                steps.append((TOL, oneulp_class(a, b)))
            if steps and all(ok for _, ok in steps):
                deviant[q] = [c for c, _ in steps]
            else:
                problem("equals(%s, %s) = %s differs from the specification outside every known-finding class" % (q[0], q[1], bits[n]),
                        [q[0], q[1]], {"query": q, "impl": bits[n], "now": now[n], "vc": vc[n], "vcu": vcu[n], "ideal": ideal[n]})
        out["pairs_true" if e[q] else "pairs_false"] += 1
    if len(e) != len(queries):
        return

    def fails(what, qs, involved):
        """an instance of the property fails on the implementation's answers"""
        ids = sorted(set(c for q in qs if q in deviant for c in deviant[q]))
        if ids == [TOL]:
            out["tolerance"] += 1       # only the one-ulp tolerance is involved: outside the property's claims
        elif ids:
            for i in [c for c in ids if c != TOL]:
                out["kf"].setdefault(i, {"what": what, "seed": case["seed"], "involved": involved,
                                         "descs": [roots[k][1] for k in involved]})
                out["kf_count"][i] = out["kf_count"].get(i, 0) + 1
        else:
            dq = [corr[q] for q in qs if q in corr]
            problem("ORACLE " + what, involved,
                    {"class": "oracle-no-deviation" if not dq else ("oracle-on-pinned-deviation" if all(dq) else "oracle-on-other-deviation")})

    asked = set(queries)
    # reflexivity: same object, exact copy
    for k in range(len(roots)):
        if (k, k) in asked and not e[(k, k)]:
            fails("reflexivity: x.equals(x) is false (root %d)" % k, [(k, k)], [k])
    std = len(roots) > 2 and roots[1][0] == "copy" and roots[2][0] == "shuffle"     # (corpus cases are plain groups)
    for q in ((0, 1), (1, 0)) if std else ():
        if not e[q]:
            fails("an exact copy is not equal (%d,%d)" % q, [q], [0, 1])
    # a sub-object that has a parent (and whatever else hangs on it) equals a free-standing build of the same subtree
    for k in range(len(roots)):
        if roots[k][0] == "sub":
            out["subpairs"][roots[k][2][0]] = out["subpairs"].get(roots[k][2][0], 0) + 1
            for q in ((k, k + 1), (k + 1, k)):
                if not e[q]:
                    fails("parent: the sub-object %s of the original is not equal to a free-standing copy of itself %s" % (roots[k][1], q),
                          [q], [0, k, k + 1])
    # symmetry
    for (i, j) in queries:
        if i < j and (j, i) in asked and e[(i, j)] != e[(j, i)]:
            fails("symmetry: equals(%d,%d)=%d but equals(%d,%d)=%d" % (i, j, e[(i, j)], j, i, e[(j, i)]), [(i, j), (j, i)], [i, j])
    # transitivity on every triple of the full group
    for i in range(ng):
        for j in range(ng):
            if i != j and e[(i, j)]:
                for k in range(ng):
                    if k != j and k != i and e[(j, k)]:
                        out["triples"] += 1
                        if not e[(i, k)]:
                            fails("transitivity: equals(%d,%d) and equals(%d,%d) but not equals(%d,%d)" % (i, j, j, k, i, k),
                                  [(i, j), (j, k), (i, k)], [i, j, k])
    # permutation invariance: the shuffled copy is equal and answers every question like the original
    for q in ((0, 2), (2, 0)) if std else ():
        if not e[q]:
            fails("permutation: the child-order permutation of x is not equal to x (%d,%d)" % q, [q], [0, 2])
    for k in range(3, len(roots)) if std else ():
        for qa, qb in (((0, k), (2, k)), ((k, 0), (k, 2))):
            if qa in asked and qb in asked and e[qa] != e[qb]:
                fails("permutation: equals%s=%d but with the shuffled copy equals%s=%d" % (qa, e[qa], qb, e[qb]), [qa, qb], [0, 2, k])
    # count sensitivity
    for (i, j) in queries:
        if i != j and trees[i][0] == trees[j][0] and eg.top_counts(trees[i]) != eg.top_counts(trees[j]) and e[(i, j)]:
            fails("count: equals(%d,%d) is true although the numbers of children differ %s vs %s" %
                  (i, j, eg.top_counts(trees[i]), eg.top_counts(trees[j])), [(i, j)], [i, j])
    # every single mutation is detected in both directions
    for k in range(3, len(roots)):
        if roots[k][0] == "mut":
            out["mut_kinds"][mutkind(roots[k][1])] = out["mut_kinds"].get(mutkind(roots[k][1]), 0) + 1
            us = ulp_step(roots[k][1])
            if us is not None:
                out["ulp_steps"][us] = out["ulp_steps"].get(us, 0) + 1
            for q in ((0, k), (k, 0)):
                if e[q]:
                    if us in ("k2", "k3", "k4", "far") and not (q in deviant and TOL in deviant[q]):
                        # (when the operands also hold values exactly one ulp apart the tolerance can chain:
                        #  {1-ulp, 1} matches {1, 1+ulp} pairwise — outside the property's claims, counted as tolerance)
                        problem("ORACLE ulp: an exponent/multiplier changed by %s (more than one unit in the last place, more than "
                                "DBL_EPSILON) compares equal: '%s' equals%s" % (us, roots[k][1], q), [0, k],
                                {"class": "oracle-ulp", "query": q})
                    else:
                        fails("detect: mutation '%s' is not seen by equals%s" % (roots[k][1], q), [q], [0, k])
    # coverage accounting
    nt = set()
    mc = [eg.max_children(t) >= 2 for t in trees]
    sers = [hash(t) for t in trees]
    for (i, j) in queries:
        if i != j and mc[i] and mc[j]:
            nt.add((sers[i], sers[j]))
    out["nontrivial"] += len(nt)
    out["sizes"][min(eg.tsize(trees[0]) // 10, 9)] += 1
    out["kinds"][case["kind"]] = out["kinds"].get(case["kind"], 0) + 1


def mutkind(d):
    import re
    return re.sub(r"\[\d+\]", "[]", d.split("@")[0])


# --------------------------------------------------------------------------- one shard (runs in a worker process)

def run_shard(args):
    drv, mdl, workdir, shard, seeds, mutcap = args
    cases = [corpus_case(*s) if isinstance(s, tuple) else build_case(s, mutcap) for s in seeds]
    cf = os.path.join(workdir, "shard%03d.cases" % shard)
    with open(cf, "w") as f:
        for c in cases:
            f.write(c["line"] + "\n")
    p1 = subprocess.Popen([drv, cf], stdout=subprocess.PIPE, stderr=subprocess.DEVNULL)
    p2 = subprocess.Popen([mdl, cf], stdout=subprocess.PIPE, stderr=subprocess.DEVNULL)
    il = p1.communicate()[0].decode("utf-8", "replace").split("\n")
    ml = p2.communicate()[0].decode("utf-8", "replace").split("\n")
    out = {"bad": [], "kf": {}, "kf_count": {}, "pairs_true": 0, "pairs_false": 0, "triples": 0, "nontrivial": 0,
           "sizes": [0] * 10, "kinds": {}, "mut_kinds": {}, "subpairs": {}, "ulp_steps": {}, "tolerance": 0, "own": {}, "evaluations": 0, "cases": len(cases), "roothashes": [],
           "samples": []}
    for k, c in enumerate(cases):
        a = il[k] if k < len(il) else "<missing>"
        b = ml[k] if k < len(ml) else "<missing>"
        eval_case(c, a, b, out)
        out["evaluations"] += len(c["queries"])
        out["roothashes"].append(eg.fnv1a(eg.ser(c["roots"][0][2])))
        for kk, vv in c.get("own", {}).items():
            out["own"][kk] = out["own"].get(kk, 0) + vv
        for bad in out["bad"]:
            if "case" not in bad and bad["seed"] == c["seed"]:
                bad["case"] = minimal(c, bad, a, b)
    if cases and shard == 0:
        out["samples"] = [eg.ser(cases[0]["roots"][0][2])[:400], cases[0]["line"][:400]]
    os.remove(cf)
    return out


def minimal(case, bad, il, ml):
    """replay content: the case restricted to the roots involved in the problem"""
    inv = list(bad["involved"]) or list(range(min(3, len(case["roots"]))))
    for k in list(inv):
        sp = case["roots"][k][3]
        if sp is not None and sp[0] not in inv:
            inv.append(sp[0])
    inv.sort()
    pos = {k: n for n, k in enumerate(inv)}
    roots = []
    for k in inv:
        role, desc, t, sp = case["roots"][k]
        roots.append((role, desc, t, None if sp is None else (pos[sp[0]], sp[1])))
    qs = [(i, j) for i in range(len(inv)) for j in range(len(inv))]
    return {"what": bad["what"], "seed": case["seed"], "roots": [[k] + list(case["roots"][k][:2]) for k in inv],
            "line": make_line(roots, qs, case["seed"], ids=inv), "queries": qs, "extra": bad.get("extra"),
            "trees": [eg.ser(r[2]) for r in roots], "_roots": roots, "_ids": inv,
            "full_case_line": case["line"], "full_case_query": (bad.get("extra") or {}).get("query")}


def run_one(drv, mdl, workdir, roots, key=0, ids=None, tag="shrink"):
    """both drivers on one small case (every ordered pair); returns (impl bits, now bits, queries) or None"""
    qs = [(i, j) for i in range(len(roots)) for j in range(len(roots))]
    cf = os.path.join(workdir, "%s.cases" % tag)
    open(cf, "w").write(make_line(roots, qs, key, ids=ids) + "\n")
    il = vf.sh([drv, cf], timeout=120)[1].strip().split(" ")
    ml = field(vf.sh([mdl, cf], timeout=120)[1].strip(), "now")
    if len(il) != 3 or ml is None or len(il[0]) != len(qs) or len(ml) != len(qs):
        return None
    return il[0], ml, qs


def shrink(drv, mdl, workdir, rep, budget=400):
    """greedy structural shrinking of a replay whose problem shows as a disagreement between implementation and model
    (for a symmetry failure: an asymmetric pair of the implementation that involves such a disagreement)"""
    roots = rep.pop("_roots", None)
    ids = rep.pop("_ids", None)
    key = rep["seed"]
    if roots is None or any(r[3] is not None for r in roots):
        return rep
    want_asym = "symmetry" in rep["what"]

    def still_bad(rs):
        r = run_one(drv, mdl, workdir, rs, key, ids)
        if r is None:
            return False
        impl, now, qs = r
        dev = set(q for n, q in enumerate(qs) if impl[n] != now[n])
        if not dev:
            return False
        if want_asym:
            e = dict(zip(qs, impl))
            return any(e[(i, j)] != e[(j, i)] and ((i, j) in dev or (j, i) in dev) for (i, j) in qs if i < j)
        return True

    if not still_bad(roots):
        rep["shrunk"] = ("the case restricted to the roots involved does not show the disagreement (the objects held by the "
                         "other roots matter): replay full_case_line instead, query full_case_query")
        return rep
    runs, progress = 1, True
    while progress and runs < budget:
        progress = False
        reds = [dict(eg.reductions(r[2])) for r in roots]
        # the same reduction in every tree that has that position (the trees of a case are look-alikes), then one tree at a time
        cands = []
        for key in reds[0]:
            cands.append([(r[0], r[1], reds[k].get(key, r[2]), None) for k, r in enumerate(roots)])
        for k in range(len(roots)):
            for key, t in reds[k].items():
                cands.append(roots[:k] + [(roots[k][0], roots[k][1], t, None)] + roots[k + 1:])
        for cand in cands:
            runs += 1
            if still_bad(cand):
                roots, progress = cand, True
                break
            if runs >= budget:
                break
    r = run_one(drv, mdl, workdir, roots, key, ids)
    rep["line"] = make_line(roots, r[2], key, ids=ids)
    rep["queries"] = r[2]
    rep["trees"] = [eg.ser(x[2]) for x in roots]
    rep["shrunk"] = {"driver_runs": runs, "impl": r[0], "model_now": r[1],
                     "note": "trees reduced structurally while the disagreement persisted; the descriptions in 'roots' refer to the unreduced case"}
    return rep


# --------------------------------------------------------------------------- run

def drivers():
    build = vf.build_repo("plain")
    drv = vf.compile_driver(build, os.path.join(vf.ROOT, "harness/c10_driver.cpp"))
    mdl = vf.ocaml_driver("equals")
    return drv, mdl


def run(ctx):
    quick = ctx.quick()
    ctx.proofs()
    ctx.assumptions += [
        "doubles: unit exponents / multipliers are drawn from dyadic values that are identical or further apart than one ulp "
        "(the property's carve-out); on those areNearlyEqual(a,b) = (|a-b| <= DBL_EPSILON), which is the model instance neq_abs; "
        "the theorems are stated for any comparison that is an equivalence (instance Qeq_bool) and neq_abs is proved equal to it "
        "on values more than DBL_EPSILON apart",
        "the trees are built through the public API by gen/equals_gen.py: emit(); what was built is read back through public "
        "getters and must be the tree given to the model (checked for every root of every case)",
        "equals() ignores parents, equivalences and object identity; the model has none of them (value trees)",
        "the check models ComponentEntity::doEquals with fix C10-component-matching applied (flags_now); against a tree without "
        "the fix the {a,a} vs {a,b} class is reported as a violation",
    ]
    drv, mdl = drivers()
    ncases = 2000 if quick else 50000
    mutcap = 30 if quick else 24
    seeds = [ctx.rng.getrandbits(48) for _ in range(ncases)]
    corpus = os.path.join(vf.ROOT, "corpus", "C10.json")
    if os.path.exists(corpus):      # hand-written groups that once failed; always run first
        seeds = [(n, trees) for n, trees in enumerate(json.load(open(corpus))["groups"])] + seeds
    nsh = vf.NCPU * (2 if quick else 8)
    args = [(drv, mdl, ctx.workdir, k, seeds[k::nsh], mutcap) for k in range(nsh)]
    with multiprocessing.Pool(vf.NCPU) as pool:
        outs = pool.map(run_shard, args, chunksize=1)
    tot = {"pairs_true": 0, "pairs_false": 0, "triples": 0, "nontrivial": 0, "evaluations": 0, "cases": 0}
    sizes, kinds, mk, kfc, subp, ulpst, ownst = [0] * 10, {}, {}, {}, {}, {}, {}
    ntol = 0
    seen_roots = set()
    nbad = 0
    allbad = []
    for o in outs:
        for k in tot:
            tot[k] += o[k]
        for i in range(10):
            sizes[i] += o["sizes"][i]
        for d, s in ((kinds, o["kinds"]), (mk, o["mut_kinds"]), (kfc, o["kf_count"]), (subp, o["subpairs"]), (ulpst, o["ulp_steps"]), (ownst, o["own"])):
            for k, v in s.items():
                d[k] = d.get(k, 0) + v
        ntol += o["tolerance"]
        seen_roots.update(o["roothashes"])
        for fid, ex in o["kf"].items():
            text = "%s [seed %s; %s]" % (ex["what"], ex["seed"], "; ".join(x for x in ex["descs"] if x))
            if not ctx.known_finding(fid, text) and nbad < 5:
                nbad += 1
                ctx.violation("C10 finding %s is not listed: %s" % (fid, text), "kf_%d.json" % nbad, ex)
        allbad += o["bad"]
        if o["samples"]:
            ctx.cov["samples"] = o["samples"]
    # the property failing on the real objects comes first, then disagreements with the model
    allbad.sort(key=lambda b: (0 if b["what"].startswith("ORACLE") else 1, 0 if str(b["seed"]).startswith("corpus") else 1, str(b["seed"])))
    classes = {}
    for bad in allbad:
        c = (bad.get("extra") or {}).get("class", "other")
        classes[c] = classes.get(c, 0) + 1
    if allbad:
        ctx.log("problems by class:", classes)
        ctx.notes.append("problems by class: %s" % classes)
    shown = [b for b in allbad if b["what"].startswith("ORACLE")][:3]
    shown += [b for b in allbad if not b["what"].startswith("ORACLE")][:5 - len(shown)]
    for bad in shown:
        if nbad < 5:
            nbad += 1
            rep = bad.get("case", bad)
            if "_roots" in rep:
                try:
                    rep = shrink(drv, mdl, ctx.workdir, rep)
                except Exception as ex:       # shrinking is a convenience; the unreduced replay is still valid
                    rep.pop("_roots", None)
                    rep.pop("_ids", None)
                    rep["shrunk"] = "failed: %r" % ex
            ctx.violation("C10: " + bad["what"], "case_%d.json" % nbad, rep)
    for bad in allbad:
        if isinstance(bad.get("case"), dict):
            bad["case"].pop("_roots", None)
            bad["case"].pop("_ids", None)
    ctx.cov["evaluations"] = tot["evaluations"]
    # distinct: the pairs are counted per case (distinct within the case by tree); cases with the same original are rare
    ctx.cov["distinct_nontrivial"] = int(tot["nontrivial"] * (len(seen_roots) / max(1, tot["cases"])))
    ctx.cov["rule"] = ("%d cases; a case = one random entity tree (model / component / units / variable / reset / import source; depth <= 3, "
                       "child lists <= 4, strings from alphabets of 2-5 values) with its exact copy, a copy shuffled at every level, up to %d "
                       "of its single mutations (each attribute changed, optional sub-object set/cleared, child added/removed, at every path), "
                       "a shuffled mutant, a double mutant and two unrelated trees, each built as separate real objects through the API; equals() "
                       "is asked for every ordered pair of the first group and original/shuffle vs every mutant, on the implementation and on "
                       "four instances of the extracted model. evaluations = equals() calls on real objects. non-trivial pair = different "
                       "objects, both with a child list of length >= 2 somewhere; distinct by (tree, tree) within a case, scaled by the "
                       "fraction of distinct originals (%d of %d)" % (tot["cases"], mutcap, len(seen_roots), tot["cases"]))
    ctx.cov["input_distribution"] = {
        "root_kind": kinds, "original_size_in_entity_nodes_by_10": sizes, "mutation_kinds": dict(sorted(mk.items())),
        "pairs_equal": tot["pairs_true"], "pairs_unequal": tot["pairs_false"],
        "transitivity_triples_with_both_premises_true": tot["triples"],
        "parented_sub_object_vs_free_standing_copy_by_kind": subp,
        "exponent_multiplier_mutations_by_ulp_step": dict(sorted(ulpst.items())),
        "units_object_held_by_a_variable_by_ownership": dict(sorted((k, v) for k, v in ownst.items() if not k.startswith("import_"))),
        "import_sources_by_resolved_state": dict(sorted((k, v) for k, v in ownst.items() if k.startswith("import_"))),
        "oracle_instances_inside_the_one_ulp_tolerance_no_claim": ntol,
        "oracle_failures_attributed_to_known_findings": kfc}
    ctx.cov["traces_validated_against_impl"] = tot["evaluations"]
    ctx.log("cases=%d evaluations=%d equal=%d unequal=%d triples=%d kf=%s" %
            (tot["cases"], tot["evaluations"], tot["pairs_true"], tot["pairs_false"], tot["triples"], kfc))


def replay(ctx, path):
    r = json.load(open(path))
    drv, mdl = drivers()
    cf = os.path.join(ctx.workdir, "replay.cases")
    open(cf, "w").write(r["line"] + "\n")
    print("what   :", r.get("what"))
    print("roots  :", r.get("roots"))
    print("queries:", r.get("queries"))
    out = vf.sh([drv, "--dumps", cf])[1].strip()
    print("impl   :", out.split("|")[0], " equals(nullptr):", out.split("|")[-1] if out.count("|") >= 2 else "?")
    print("model  :", vf.sh([mdl, cf])[1].strip())
    for k, d in enumerate(out.split("|")[1].split(";") if "|" in out else []):
        print("root %d (as read back from the objects): %s" % (k, d))
    print("script :", r["line"].split("|")[0])
    if r.get("full_case_line"):
        # the whole case as it ran (the restricted case above may not hold the objects that matter)
        open(cf, "w").write(r["full_case_line"] + "\n")
        qs = r["full_case_line"].split("|")[2].split(" ")
        fo = vf.sh([drv, cf])[1].strip().split(" ")[0]
        fm = vf.sh([mdl, cf])[1].strip()
        q = r.get("full_case_query")
        if q is not None and "%d,%d" % tuple(q) in qs:
            n = qs.index("%d,%d" % tuple(q))
            print("full case, query %s: impl=%s model now=%s" % (q, fo[n], field(fm, "now")[n]))
        print("full case: %d of %d answers differ from the model" % (sum(1 for a, b2 in zip(fo, field(fm, "now") or "") if a != b2), len(qs)))
