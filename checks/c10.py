"""C10 — equals() is a true equivalence relation that sees every attribute.

proofs : Properties_C10.v  (greedy matching = permutation up to the element relation; the repaired equals is the
         specification relation `sim`, hence reflexive / symmetric / transitive / permutation invariant / count
         sensitive / detects every single mutation; `_refuted` witnesses and `_partial` theorems for the code as it
         is: no count test for variables, containsComponent instead of a matching)
tie    : random entity trees over a tiny alphabet are built on real objects through the public API
         (harness/common/script.hpp), dumped back through public getters (must be the intended tree) and compared
         with equals() in both directions; the same trees go through the extracted model (four instances)
search : reflexivity, symmetry, transitivity on triples, permutation invariance, count sensitivity and detection of
         every single mutation are evaluated on the implementation's own answers
"""
import json
import multiprocessing
import os
import random
import subprocess
import sys

import vf

sys.path.insert(0, os.path.join(vf.ROOT, "gen"))
import equals_gen as eg  # noqa: E402
from script_gen import ScriptBuilder  # noqa: E402

KINDS = ["M", "M", "M", "M", "C", "C", "C", "U", "V", "R", "I"]
KF_VARS = "C10-variables-count"
KF_EPS = "C10-abs-epsilon"
FULL_GROUP_MUTANTS = 6


# --------------------------------------------------------------------------- cases

def make_line(trees, queries, rng):
    """one case line: script | root slots | queries | serialised trees"""
    b = ScriptBuilder(check=False)
    slots = [eg.emit(b, t, rng) for t in trees]
    return "%s|%s|%s|%s" % (b.text(), " ".join(map(str, slots)), " ".join("%d,%d" % q for q in queries),
                            ";".join(eg.ser(t) for t in trees))


def build_case(seed, mutcap):
    """roots: [0] original, [1] exact copy, [2] shuffled copy, then others / mutants.
    The first `ng` roots form the full group: every ordered pair (and the diagonal) is queried."""
    rng = random.Random(seed)
    g = eg.Gen(rng, tiny=0.02 if rng.random() < 0.85 else 0.3)
    kind = rng.choice(KINDS)
    o = g.entity(kind)
    roots = [("orig", "", o), ("copy", "", o), ("shuffle", "", g.shuffled(o))]
    muts = list(g.mutations(o))
    rng.shuffle(muts)
    muts = muts[:mutcap]
    inner = muts[:FULL_GROUP_MUTANTS]
    for d, t in inner:
        roots.append(("mut", d, t))
    if inner:
        d, t = inner[0]
        roots.append(("mutshuffle", d, g.shuffled(t)))
        # a second mutation on top of the first: two steps away from the original
        m2 = list(g.mutations(t))
        if m2:
            d2, t2 = rng.choice(m2)
            roots.append(("mut2", d + " ; " + d2, t2))
    roots.append(("other", "", g.entity(kind)))
    roots.append(("other", "", g.entity(rng.choice(KINDS)) if rng.random() < 0.5 else g.entity(kind)))
    ng = len(roots)
    for d, t in muts[FULL_GROUP_MUTANTS:]:
        roots.append(("mut", d, t))
    queries = [(i, j) for i in range(ng) for j in range(ng)]
    for k in range(ng, len(roots)):
        queries += [(0, k), (k, 0), (2, k), (k, 2), (k, k)]
    trees = [r[2] for r in roots]
    return {"seed": seed, "kind": kind, "roots": roots, "ng": ng, "queries": queries,
            "line": make_line(trees, queries, rng)}


# --------------------------------------------------------------------------- known-finding matchers (over the case)

def varcount_class(a, b):
    """some component of a and some component of b hold different numbers of variables"""
    ca, cb = eg.var_counts(a), eg.var_counts(b)
    return any(x != y for x in ca for y in cb)


def epsilon_class(a, b):
    """some exponent/multiplier of a and one of b are different values at most DBL_EPSILON apart"""
    da, db = set(eg.doubles_of(a)), set(eg.doubles_of(b))
    return any(x != y and abs(eg.dval(x) - eg.dval(y)) <= eg.EPS for x in da for y in db)


# --------------------------------------------------------------------------- evaluation of one case

def field(line, key):
    for t in line.split():
        if t.startswith(key + "="):
            return t[len(key) + 1:]
    return None


def eval_case(case, il, ml, out):
    """il / ml: implementation and model output lines.  Appends problems to out['bad'], findings to out['kf']."""
    roots, queries, ng = case["roots"], case["queries"], case["ng"]
    trees = [r[2] for r in roots]

    def problem(what, involved, extra=None):
        out["bad"].append({"what": what, "seed": case["seed"], "involved": involved, "extra": extra})

    parts = il.split(" ")
    if len(parts) != 2 or len(parts[0]) != len(queries) or set(parts[0]) - set("01"):
        problem("implementation did not answer: %s" % il[:200], [])
        return
    bits = parts[0]
    hashes = parts[1].split(",")
    for k, t in enumerate(trees):
        if k >= len(hashes) or hashes[k] != eg.fnv1a(eg.ser(t)):
            problem("the objects built through the API are not the intended tree (root %d, read back through getters)" % k, [k])
            return
    now, pinned, vc, ideal = (field(ml, k) for k in ("now", "pinned", "vc", "ideal"))
    if None in (now, pinned, vc, ideal) or len(now) != len(queries):
        problem("model did not answer: %s" % ml[:200], [])
        return
    e = {}
    deviant = {}      # query -> known finding id that explains impl != ideal
    for n, q in enumerate(queries):
        e[q] = bits[n] == "1"
        a, b = trees[q[0]], trees[q[1]]
        if bits[n] != now[n]:
            note = " (the answer is that of the unrepaired ComponentEntity::doEquals: fix C10-component-matching not applied)" \
                if bits[n] == pinned[n] else ""
            problem("correspondence: equals(%s, %s) impl=%s model=%s%s" % (q[0], q[1], bits[n], now[n], note), [q[0], q[1]],
                    {"query": q, "impl": bits[n], "now": now[n], "pinned": pinned[n], "vc": vc[n], "ideal": ideal[n]})
            continue
        if bits[n] != ideal[n]:
            if now[n] != vc[n] and varcount_class(a, b):
                deviant[q] = KF_VARS
            elif vc[n] != ideal[n] and epsilon_class(a, b):
                deviant[q] = KF_EPS
            else:
                problem("equals(%s, %s) = %s differs from the specification outside every known-finding class" % (q[0], q[1], bits[n]),
                        [q[0], q[1]], {"query": q, "impl": bits[n], "now": now[n], "vc": vc[n], "ideal": ideal[n]})
        out["pairs_true" if e[q] else "pairs_false"] += 1
    if len(e) != len(queries):
        return

    def fails(what, qs, involved):
        """an instance of the property fails on the implementation's answers"""
        ids = sorted(set(deviant[q] for q in qs if q in deviant))
        if ids:
            for i in ids:
                out["kf"].setdefault(i, {"what": what, "seed": case["seed"], "involved": involved,
                                         "descs": [roots[k][1] for k in involved]})
                out["kf_count"][i] = out["kf_count"].get(i, 0) + 1
        else:
            problem("ORACLE " + what, involved)

    asked = set(queries)
    # reflexivity: same object, exact copy
    for k in range(len(roots)):
        if (k, k) in asked and not e[(k, k)]:
            fails("reflexivity: x.equals(x) is false (root %d)" % k, [(k, k)], [k])
    for q in ((0, 1), (1, 0)):
        if not e[q]:
            fails("an exact copy is not equal (%d,%d)" % q, [q], [0, 1])
    # symmetry
    for (i, j) in queries:
        if i < j and (j, i) in asked and e[(i, j)] != e[(j, i)]:
            fails("symmetry: equals(%d,%d)=%d but equals(%d,%d)=%d" % (i, j, e[(i, j)], j, i, e[(j, i)]), [(i, j), (j, i)], [i, j])
    # transitivity on every triple of the full group
    for i in range(ng):
        for j in range(ng):
            if i != j and e[(i, j)]:
                for k in range(ng):
                    if k != j and k != i and e[(j, k)]:
                        out["triples"] += 1
                        if not e[(i, k)]:
                            fails("transitivity: equals(%d,%d) and equals(%d,%d) but not equals(%d,%d)" % (i, j, j, k, i, k),
                                  [(i, j), (j, k), (i, k)], [i, j, k])
    # permutation invariance: the shuffled copy is equal and answers every question like the original
    for q in ((0, 2), (2, 0)):
        if not e[q]:
            fails("permutation: the child-order permutation of x is not equal to x (%d,%d)" % q, [q], [0, 2])
    for k in range(3, len(roots)):
        for qa, qb in (((0, k), (2, k)), ((k, 0), (k, 2))):
            if qa in asked and qb in asked and e[qa] != e[qb]:
                fails("permutation: equals%s=%d but with the shuffled copy equals%s=%d" % (qa, e[qa], qb, e[qb]), [qa, qb], [0, 2, k])
    # count sensitivity
    for (i, j) in queries:
        if i != j and trees[i][0] == trees[j][0] and eg.top_counts(trees[i]) != eg.top_counts(trees[j]) and e[(i, j)]:
            fails("count: equals(%d,%d) is true although the numbers of children differ %s vs %s" %
                  (i, j, eg.top_counts(trees[i]), eg.top_counts(trees[j])), [(i, j)], [i, j])
    # every single mutation is detected in both directions
    for k in range(3, len(roots)):
        if roots[k][0] == "mut":
            out["mut_kinds"][mutkind(roots[k][1])] = out["mut_kinds"].get(mutkind(roots[k][1]), 0) + 1
            for q in ((0, k), (k, 0)):
                if e[q]:
                    fails("detect: mutation '%s' is not seen by equals%s" % (roots[k][1], q), [q], [0, k])
    # coverage accounting
    nt = set()
    mc = [eg.max_children(t) >= 2 for t in trees]
    sers = [hash(t) for t in trees]
    for (i, j) in queries:
        if i != j and mc[i] and mc[j]:
            nt.add((sers[i], sers[j]))
    out["nontrivial"] += len(nt)
    out["sizes"][min(eg.tsize(trees[0]) // 10, 9)] += 1
    out["kinds"][case["kind"]] = out["kinds"].get(case["kind"], 0) + 1


def mutkind(d):
    import re
    return re.sub(r"\[\d+\]", "[]", d)


# --------------------------------------------------------------------------- one shard (runs in a worker process)

def run_shard(args):
    drv, mdl, workdir, shard, seeds, mutcap = args
    cases = [build_case(s, mutcap) for s in seeds]
    cf = os.path.join(workdir, "shard%03d.cases" % shard)
    with open(cf, "w") as f:
        for c in cases:
            f.write(c["line"] + "\n")
    p1 = subprocess.Popen([drv, cf], stdout=subprocess.PIPE, stderr=subprocess.DEVNULL)
    p2 = subprocess.Popen([mdl, cf], stdout=subprocess.PIPE, stderr=subprocess.DEVNULL)
    il = p1.communicate()[0].decode("utf-8", "replace").split("\n")
    ml = p2.communicate()[0].decode("utf-8", "replace").split("\n")
    out = {"bad": [], "kf": {}, "kf_count": {}, "pairs_true": 0, "pairs_false": 0, "triples": 0, "nontrivial": 0,
           "sizes": [0] * 10, "kinds": {}, "mut_kinds": {}, "evaluations": 0, "cases": len(cases), "roothashes": [],
           "samples": []}
    for k, c in enumerate(cases):
        a = il[k] if k < len(il) else "<missing>"
        b = ml[k] if k < len(ml) else "<missing>"
        eval_case(c, a, b, out)
        out["evaluations"] += len(c["queries"])
        out["roothashes"].append(eg.fnv1a(eg.ser(c["roots"][0][2])))
        for bad in out["bad"]:
            if "case" not in bad and bad["seed"] == c["seed"]:
                bad["case"] = minimal(c, bad, a, b)
    if cases and shard == 0:
        out["samples"] = [eg.ser(cases[0]["roots"][0][2])[:400], cases[0]["line"][:400]]
    os.remove(cf)
    return out


def minimal(case, bad, il, ml):
    """replay content: the case restricted to the roots involved in the problem"""
    inv = bad["involved"] or list(range(min(3, len(case["roots"]))))
    trees = [case["roots"][k][2] for k in inv]
    qs = [(i, j) for i in range(len(inv)) for j in range(len(inv))]
    return {"what": bad["what"], "seed": case["seed"], "roots": [list(case["roots"][k][:2]) for k in inv],
            "line": make_line(trees, qs, random.Random(0)), "queries": qs, "extra": bad.get("extra"),
            "trees": [eg.ser(t) for t in trees]}


# --------------------------------------------------------------------------- run

def drivers():
    build = vf.build_repo("plain")
    drv = vf.compile_driver(build, os.path.join(vf.ROOT, "harness/c10_driver.cpp"))
    mdl = vf.ocaml_driver("equals")
    return drv, mdl


def run(ctx):
    quick = ctx.quick()
    ctx.proofs()
    ctx.assumptions += [
        "doubles: unit exponents / multipliers are drawn from dyadic values that are identical or further apart than one ulp "
        "(the property's carve-out); on those areNearlyEqual(a,b) = (|a-b| <= DBL_EPSILON), which is the model instance neq_abs; "
        "the theorems are stated for any comparison that is an equivalence (instance Qeq_bool) and neq_abs is proved equal to it "
        "on values more than DBL_EPSILON apart",
        "the trees are built through the public API by gen/equals_gen.py: emit(); what was built is read back through public "
        "getters and must be the tree given to the model (checked for every root of every case)",
        "equals() ignores parents, equivalences and object identity; the model has none of them (value trees)",
        "the check models ComponentEntity::doEquals with fix C10-component-matching applied (flags_now); against a tree without "
        "the fix the {a,a} vs {a,b} class is reported as a violation",
    ]
    drv, mdl = drivers()
    ncases = 2000 if quick else 50000
    mutcap = 24 if quick else 16
    seeds = [ctx.rng.getrandbits(48) for _ in range(ncases)]
    corpus = os.path.join(vf.ROOT, "corpus", "C10.seeds")
    if os.path.exists(corpus):
        seeds = [int(x) for x in open(corpus).read().split()] + seeds
    nsh = vf.NCPU * (2 if quick else 8)
    args = [(drv, mdl, ctx.workdir, k, seeds[k::nsh], mutcap) for k in range(nsh)]
    with multiprocessing.Pool(vf.NCPU) as pool:
        outs = pool.map(run_shard, args, chunksize=1)
    tot = {"pairs_true": 0, "pairs_false": 0, "triples": 0, "nontrivial": 0, "evaluations": 0, "cases": 0}
    sizes, kinds, mk, kfc = [0] * 10, {}, {}, {}
    seen_roots = set()
    nbad = 0
    for o in outs:
        for k in tot:
            tot[k] += o[k]
        for i in range(10):
            sizes[i] += o["sizes"][i]
        for d, s in ((kinds, o["kinds"]), (mk, o["mut_kinds"]), (kfc, o["kf_count"])):
            for k, v in s.items():
                d[k] = d.get(k, 0) + v
        seen_roots.update(o["roothashes"])
        for fid, ex in o["kf"].items():
            text = "%s [seed %s; %s]" % (ex["what"], ex["seed"], "; ".join(x for x in ex["descs"] if x))
            if not ctx.known_finding(fid, text) and nbad < 5:
                nbad += 1
                ctx.violation("C10 finding %s is not listed: %s" % (fid, text), "kf_%d.json" % nbad, ex)
        for bad in o["bad"]:
            if nbad < 5:
                nbad += 1
                ctx.violation("C10: " + bad["what"], "case_%d.json" % nbad, bad.get("case", bad))
        if o["samples"]:
            ctx.cov["samples"] = o["samples"]
    ctx.cov["evaluations"] = tot["evaluations"]
    # distinct: the pairs are counted per case (distinct within the case by tree); cases with the same original are rare
    ctx.cov["distinct_nontrivial"] = int(tot["nontrivial"] * (len(seen_roots) / max(1, tot["cases"])))
    ctx.cov["rule"] = ("%d cases; a case = one random entity tree (model / component / units / variable / reset / import source; depth <= 3, "
                       "child lists <= 4, strings from alphabets of 2-5 values) with its exact copy, a copy shuffled at every level, up to %d "
                       "of its single mutations (each attribute changed, optional sub-object set/cleared, child added/removed, at every path), "
                       "a shuffled mutant, a double mutant and two unrelated trees, each built as separate real objects through the API; equals() "
                       "is asked for every ordered pair of the first group and original/shuffle vs every mutant, on the implementation and on "
                       "four instances of the extracted model. evaluations = equals() calls on real objects. non-trivial pair = different "
                       "objects, both with a child list of length >= 2 somewhere; distinct by (tree, tree) within a case, scaled by the "
                       "fraction of distinct originals (%d of %d)" % (tot["cases"], mutcap, len(seen_roots), tot["cases"]))
    ctx.cov["input_distribution"] = {
        "root_kind": kinds, "original_size_in_entity_nodes_by_10": sizes, "mutation_kinds": dict(sorted(mk.items())),
        "pairs_equal": tot["pairs_true"], "pairs_unequal": tot["pairs_false"],
        "transitivity_triples_with_both_premises_true": tot["triples"],
        "oracle_failures_attributed_to_known_findings": kfc}
    ctx.cov["traces_validated_against_impl"] = tot["evaluations"]
    ctx.log("cases=%d evaluations=%d equal=%d unequal=%d triples=%d kf=%s" %
            (tot["cases"], tot["evaluations"], tot["pairs_true"], tot["pairs_false"], tot["triples"], kfc))


def replay(ctx, path):
    r = json.load(open(path))
    drv, mdl = drivers()
    cf = os.path.join(ctx.workdir, "replay.cases")
    open(cf, "w").write(r["line"] + "\n")
    print("what   :", r.get("what"))
    print("roots  :", r.get("roots"))
    print("queries:", r.get("queries"))
    out = vf.sh([drv, "--dumps", cf])[1].strip()
    print("impl   :", out.split("|")[0])
    print("model  :", vf.sh([mdl, cf])[1].strip())
    for k, d in enumerate(out.split("|", 1)[1].split(";") if "|" in out else []):
        print("root %d (as read back from the objects): %s" % (k, d))
    print("script :", r["line"].split("|")[0])
