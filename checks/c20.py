"""C20 — external variables turn unknowns into inputs without disturbing the rest.

proofs : Properties_C20.v over ExternalDefs.v (marks, addDependency, the primaryExternalVariables block and its three
         messages, hasExternalVariables, isStateRateBased, isToBeComputedAgain, generateEquationCode and the four
         method bodies as statement sequences) on top of C05's AnalysisDefs.v (classification core with mIsExternal,
         the third pass, NLA-unknown pruning, EXTERNAL types).
tie    : valid abstract systems (gen/abstract_systems.py) x markings (subsets of <= 3 variables in every role, with
         arbitrary attempted dependencies): Parser -> addExternalVariable/addDependency -> analyseModel -> canonical dump
         (harness/c20_driver.cpp) compared EXACTLY with the extracted model (ocaml/external/driver.ml); the C code of the
         Generator is cut into the statements of its four methods and compared EXACTLY with the model's emission order.
search : on the implementation's own output:
         (a) externals exact (type EXTERNAL <=> class marked through a variable of the model and not the variable of
             integration; one placeholder equation of type EXTERNAL computing only it);
         (b) independent unchanged ((type, equations) of every class not linked to a marked class, with/without marks);
         (c) messages (foreign / variable of integration / non-primary or repeated): the analysis equals the analysis
             under the normalised marking and the message is there; re-targeting a mark to another member of its
             class changes nothing but messages;
         (d) rescue: a system made underconstrained by removing an initial value / an equation becomes valid when the
             unknown is marked (provided the system with the unknown given as a constant is valid);
         (e) EXECUTION: the generated C is compiled and run with a recording callback: the external entries hold
             exactly the callback's values, every declared dependency is computed (not NaN, and at its end-of-method
             value) when the callback runs, all other values satisfy the model's equations.
"""
import json
import math
import os
import re
import shutil
import subprocess
import sys
import time
from concurrent.futures import ThreadPoolExecutor

import vf

sys.path.insert(0, os.path.join(vf.ROOT, "gen"))
import abstract_systems as A  # noqa: E402

VALID = ("ode", "dae", "nla", "algebraic")
ROLES = ["state", "constant", "computed_constant", "algebraic", "nla_unknown", "voi", "non_primary", "foreign"]
VOI_VALUE = 0.25
VOI_INIT = 0.125        # initialiseVariables is called at another time than computeRates / computeVariables


# ------------------------------------------------------------------------------------------ small helpers

def fields(line):
    return dict(t.split("=", 1) for t in line.split(" ") if "=" in t)


def strip_fields(line, names):
    return " ".join(t for t in line.split(" ") if t.split("=", 1)[0] not in names)


def run_sharded(exe, args, lines, workdir, tag, timeout=3000):
    """run exe over the case lines split in shards; returns the output lines in order"""
    if not lines:
        return []
    n = max(1, min(vf.NCPU, len(lines) // 40 + 1))
    procs = []
    for k in range(n):
        part = lines[k::n]
        p = os.path.join(workdir, "%s.%d.cases" % (tag, k))
        o = os.path.join(workdir, "%s.%d.out" % (tag, k))
        with open(p, "w") as f:
            f.write("".join(l + "\n" for l in part))
        fo = open(o, "w")
        procs.append((len(part), o, fo, subprocess.Popen([exe] + args + [p], stdout=fo, stderr=subprocess.DEVNULL)))
    out = [None] * len(lines)
    t0 = time.time()
    for k, (cnt, o, fo, pr) in enumerate(procs):
        try:
            pr.wait(timeout=max(1, timeout - (time.time() - t0)))
        except subprocess.TimeoutExpired:
            pr.kill()
        fo.close()
        res = open(o, errors="replace").read().split("\n")
        for i in range(cnt):
            out[k + i * n] = res[i] if i < len(res) and res[i] != "" else "<missing>"
    return out


def drivers():
    build = vf.build_repo("plain")
    drv = vf.compile_driver(build, os.path.join(vf.ROOT, "harness/c20_driver.cpp"))
    mdl = vf.ocaml_driver("external")
    return drv, mdl


def init_value(c, v):
    return "%g" % (1.0 + ((c * 7 + v * 3) % 5) * 0.25)


UNITS = {"volt": 1.0, "millivolt": 1e-3, "kilovolt": 1e3}
UNITS_DEF = ('<units name="millivolt"><unit prefix="milli" units="volt"/></units>\n'
             '<units name="kilovolt"><unit prefix="kilo" units="volt"/></units>\n')


def cellml_text(s):
    """the document; when the system carries "_units" (one units name per component) every variable and number of a
    component is in that component's units, so that connected variables have compatible but differently SCALED units"""
    xml = A.to_cellml(s, A.Naming("plain"), init_value=init_value)
    us = s.get("_units")
    if not us:
        return xml
    out, ci = [], -1
    for line in xml.split("\n"):
        if line.startswith("<component name="):
            ci += 1
        if ci >= 0 and not line.startswith("<connection") and not line.startswith("<encapsulation") and not line.startswith("<map_") and ci < len(us):
            line = line.replace('units="dimensionless"', 'units="%s"' % us[ci])
        if line.startswith("</component>") and ci == len(us) - 1:
            ci = len(us)          # nothing after the last component is touched
        out.append(line)
        if line.startswith("<model "):
            out.append(UNITS_DEF.rstrip("\n"))
    return "\n".join(out)


def cellml_hex(s):
    return cellml_text(s).encode().hex()


def marks_text(marks):
    """marks: list of (var token, [dep tokens]) or ("=k", None)"""
    if not marks:
        return "-"
    out = []
    for v, ds in marks:
        out.append(v if not ds else "%s:%s" % (v, "+".join(ds)))
    return ";".join(out)


def tok(cv):
    return "%d.%d" % cv


# ------------------------------------------------------------------------------------------ reading a canonical line

class Analysis:
    """what a canonical line says, indexed by class"""

    def __init__(self, system, line):
        self.line = line
        self.vars, self.eqs, self.eq_order, self.var_order, self.issues = {}, {}, [], [], []
        self.voi = self.voi_var = None
        self.has_ext = False
        self.type, self.valid, self.cls = "?", False, A.class_of(system)
        self.f = {}
        try:
            self._parse(system, line)
        except (KeyError, ValueError, IndexError) as ex:      # a dump that does not fit the system: reported by the caller
            self.ok = False
            self.valid = False
            self.error = "unreadable dump (%r)" % (ex,)

    def _parse(self, system, line):
        self.f = fields(line)
        self.ok = line.startswith("T=")
        self.type = self.f.get("T", "?")
        self.valid = self.type in VALID
        cls = A.class_of(system)
        self.cls = cls

        def c(vid):
            a, b = vid.split(".")
            return cls[(int(a), int(b))]
        self.voi = None
        self.voi_var = None
        if self.f.get("VOI", "-") not in ("-", ""):
            self.voi = c(self.f["VOI"])
            self.voi_var = self.f["VOI"]
        self.vars = {}        # class -> dict(var, type, array, index, eqs)
        for it in self.f.get("S", "").split(";"):
            if it:
                v, i, ini, es = it.split(":")
                self.vars[c(v)] = {"var": v, "type": "state", "array": "states", "index": int(i), "eqs": [x for x in es.split("+") if x]}
        self.var_order = []
        for it in self.f.get("V", "").split(";"):
            if it:
                v, t, i, ini, es = it.split(":")
                self.vars[c(v)] = {"var": v, "type": t, "array": "variables", "index": int(i), "eqs": [x for x in es.split("+") if x]}
                self.var_order.append(c(v))
        self.eqs = {}         # id -> dict(type, vars (classes), deps, nla, sibs)
        self.eq_order = []
        for it in self.f.get("E", "").split(";"):
            if it:
                e, t, vs, ds, nla, sibs = it.split(":")
                self.eqs[e] = {"type": t, "vars": [c(x) for x in vs.split("+") if x and x != "null"], "deps": [x for x in ds.split("+") if x],
                               "nla": nla, "sibs": [x for x in sibs.split("+") if x]}
                self.eq_order.append(e)
        self.issues = [x for x in self.f.get("I", "").split(",") if x]
        self.has_ext = self.f.get("H", "0") == "1"

    def definition(self, k):
        """(type, [(equation id, equation type)]) of class k"""
        v = self.vars.get(k)
        if v is None:
            return None
        return (v["type"], tuple((e, self.eqs[e]["type"] if e in self.eqs else "?") for e in v["eqs"]))

    def role(self, k):
        if k == self.voi:
            return "voi"
        v = self.vars.get(k)
        if v is None:
            return None
        if v["type"] in ("algebraic", "computed_constant", "state") and any(self.eqs.get(e, {}).get("type") == "nla" for e in v["eqs"]):
            return "nla_unknown"
        return v["type"]

    def errors(self):
        return [x for x in self.issues if x.startswith("E:")]

    def messages(self):
        return [x for x in self.issues if x.startswith("M:")]


def linked_classes(system, start):
    """classes in the connected components (classes linked by sharing an equation; the variable of differentiation of a
    diff does not link) of the classes in start — python twin of ExternalDefs.linked_classes"""
    parent = {}

    def find(x):
        parent.setdefault(x, x)
        while parent[x] != x:
            parent[x] = parent[parent[x]]
            x = parent[x]
        return x

    def names(e, out):
        if e[0] == "V":
            out.append(e[1])
        elif e[0] == "D":
            out.append(e[2])
        elif e[0] == "O":
            names(e[1], out)
            names(e[2], out)
        return out
    for c in system["comps"]:
        byname = {v["name"]: v["cls"] for v in c["vars"]}
        for q in c["eqs"]:
            ks = [byname[n] for n in names(q["lhs"], []) + names(q["rhs"], [])]
            for k in ks[1:]:
                parent[find(k)] = find(ks[0])
    roots = {find(k) for k in start}
    allk = {v["cls"] for c in system["comps"] for v in c["vars"]}
    return {k for k in allk if find(k) in roots}


# ------------------------------------------------------------------------------------------ markings

def members_by_class(system):
    m = {}
    for (ci, vi), k in sorted(A.class_of(system).items()):
        m.setdefault(k, []).append((ci, vi))
    return m


def local_marks(marks):
    return [(v, ds) for v, ds in marks if not v.startswith("F") and not v.startswith("=")]


def normalise(system, base, marks):
    """the marking with the same meaning and no message: foreign marks, marks of the variable of integration and later
    marks of a class already marked are dropped; attempted dependencies are kept as given"""
    cls = A.class_of(system)
    seen = set()
    out = []
    for v, ds in marks:
        if v.startswith("F") or v.startswith("="):
            continue
        a, b = v.split(".")
        k = cls[(int(a), int(b))]
        if k == base.voi or k in seen:
            continue
        seen.add(k)
        out.append((v, ds))
    return out


def gen_markings(rng, system, base, limit, exhaustive):
    """list of (marks, roles covered)"""
    cls = A.class_of(system)
    mem = members_by_class(system)
    primary = {k: v["var"] for k, v in base.vars.items()}
    if base.voi is not None:
        primary[base.voi] = base.voi_var
    allvars = [tok(cv) for cv in sorted(cls)]
    items = allvars + ["F0", "F1"]

    def role_of(item):
        if item.startswith("F"):
            return "foreign"
        a, b = item.split(".")
        k = cls[(int(a), int(b))]
        if primary.get(k) != item and len(mem[k]) > 1:
            return "non_primary"
        return base.role(k)

    def deps_for(item):
        r = rng.random()
        if r < 0.45:
            return []
        n = rng.choice([1, 1, 2, 3, 4])
        return [rng.choice(items) for _ in range(n)]
    out = []
    seen = set()

    def add(sub):
        marks = [(it, deps_for(it)) for it in sub]
        if rng.random() < 0.08 and marks:
            marks.append(("=%d" % rng.randrange(len(marks)), None))
        key = marks_text(marks)
        if key not in seen:
            seen.add(key)
            out.append((marks, sorted({role_of(it) for it in sub if role_of(it)})))
    byrole = {}
    for it in items:
        byrole.setdefault(role_of(it), []).append(it)
    for ro in ROLES:
        if byrole.get(ro):
            add([rng.choice(byrole[ro])])
    if exhaustive:
        # one representative per class (the primary), one non-primary member where there is one, one foreign variable
        reps = []
        for k in sorted(mem):
            if k in primary:
                reps.append(primary[k])
            others = [tok(cv) for cv in mem[k] if tok(cv) != primary.get(k)]
            if others:
                reps.append(rng.choice(others))
        reps.append("F0")
        subs = [[a] for a in reps] + [[a, b] for i, a in enumerate(reps) for b in reps[i + 1:]]
        tri = [[a, b, c] for i, a in enumerate(reps) for j, b in enumerate(reps[i + 1:], i + 1) for c in reps[j + 1:]]
        rng.shuffle(tri)
        for sub in subs + tri:
            if len(out) >= limit:
                break
            sub = list(sub)
            rng.shuffle(sub)
            add(sub)
    guard = 0
    while len(out) < limit and guard < 10 * limit:
        guard += 1
        n = rng.choice([1, 2, 2, 3, 3])
        add([rng.choice(items) for _ in range(n)])
    return out


def nla_coupled_system(rng):
    """NLA equations (1-3, each over 1-3 unknowns, none isolated) whose coupling goes through 0-2 shared variables, with the
    markings that decide how the analyser must group them: all / some / none of the coupling variables marked (grouping
    into NLA systems is computed on the unknowns that are left once the external ones are pruned).  One component; every
    variable may carry an initial guess.  Returns (system, [markings])."""
    n_eq = rng.choice([1, 2, 2, 3, 3])
    n_c = rng.choice([0, 1, 1, 2]) if n_eq > 1 else rng.choice([0, 1])
    names = []
    def new_var(p_init=0.7):
        names.append({"name": len(names), "cls": len(names), "init": "c" if rng.random() < p_init else None})
        return len(names) - 1
    coupling = [new_var(0.8) for _ in range(n_c)]
    eq_vars = []
    for q in range(n_eq):
        mine = [new_var() for _ in range(rng.choice([1, 1, 2]))]
        eq_vars.append(mine)
    for cv in coupling:
        users = rng.sample(range(n_eq), min(n_eq, rng.choice([2, 2, 3])))
        for q in users:
            eq_vars[q].append(cv)
    extra_const = None
    if rng.random() < 0.4:
        extra_const = new_var(1.0)
        eq_vars[rng.randrange(n_eq)].append(extra_const)
    eqs = []
    for q, vs in enumerate(eq_vars):
        leaves = [["V", v] for v in vs]
        rng.shuffle(leaves)
        if len(leaves) == 1 or rng.random() < 0.3:
            leaves.append(["V", vs[0]])              # x (op) x: never isolated
        e = leaves[-1]
        for l in reversed(leaves[:-1]):
            e = ["O", l, e]
        lhs, rhs = e, ["N"]
        if rng.random() < 0.3:
            lhs, rhs = rhs, lhs
        eqs.append({"id": 1001 + q, "lhs": lhs, "rhs": rhs})
    if rng.random() < 0.4:                           # something that reads an NLA unknown
        y = new_var(0.0)
        eqs.append({"id": 1001 + len(eqs), "lhs": ["V", y], "rhs": ["O", ["V", eq_vars[0][0]], ["N"]]})
    if rng.random() < 0.5:                           # an ODE whose rate reads an NLA unknown: the model is a DAE, with a voi
        tv = new_var(0.0)
        z = new_var(1.0)
        eqs.append({"id": 1001 + len(eqs), "lhs": ["D", tv, z], "rhs": ["O", ["V", eq_vars[-1][0]], ["N"]]})
    rng.shuffle(eqs)
    s = {"comps": [{"parent": None, "vars": names, "eqs": eqs}], "conns": []}
    allv = ["0.%d" % i for i in range(len(names))]
    def deps():
        return [] if rng.random() < 0.6 else [rng.choice(allv) for _ in range(rng.choice([1, 2]))]
    markings = []
    cs = ["0.%d" % v for v in coupling]
    if cs:
        markings.append([(v, deps()) for v in cs])                                   # all of the coupling
        markings.append([(rng.choice(cs), deps())])                                  # some of it
        markings.append([(v, deps()) for v in cs] + [("0.%d" % eq_vars[0][0], [])])  # and a private unknown
    markings.append([("0.%d" % rng.choice(eq_vars[rng.randrange(n_eq)]), deps())])   # none of the coupling: a private unknown
    if extra_const is not None:
        markings.append([("0.%d" % extra_const, deps())])
    for _ in range(2):
        markings.append([(rng.choice(allv), deps()) for _ in range(rng.choice([1, 2, 3]))])
    return s, markings


# ------------------------------------------------------------------------------------------ emission: cutting the C code

BODY_RE = {"BI": r"\nvoid initialiseVariables\([^)]*\)\n\{\n(.*?)\n?\}\n", "BC": r"\nvoid computeComputedConstants\([^)]*\)\n\{\n(.*?)\n?\}\n",
           "BR": r"\nvoid computeRates\([^)]*\)\n\{\n(.*?)\n?\}\n", "BV": r"\nvoid computeVariables\([^)]*\)\n\{\n(.*?)\n?\}\n"}


def code_tokens(impl_c):
    """{BI, BC, BR, BV: comma separated statement tokens} — the same tokens as ocaml/external/driver.ml prints"""
    out = {}
    for key, rx in BODY_RE.items():
        m = re.search(rx, impl_c, flags=re.S)
        toks = []
        if m:
            for line in m.group(1).split("\n"):
                line = line.strip()
                if not line:
                    continue
                mm = re.match(r"^(variables|states|rates)\[(\d+)\] = (.*);$", line)
                if mm:
                    arr, idx, rhs = mm.group(1), mm.group(2), mm.group(3)
                    if arr == "variables" and rhs.startswith("externalVariable("):
                        toks.append("x" + idx)
                    elif arr == "states":
                        toks.append("is" + idx)
                    elif key == "BI" and rhs == "0.0":
                        toks.append(("zr" if arr == "rates" else "zv") + idx)
                    elif arr == "rates":
                        toks.append("r" + idx)
                    elif key == "BI" and not re.search(r"\b1(?!000\b)\d{3}\.0\b", rhs):
                        toks.append("iv" + idx)
                    else:
                        toks.append("v" + idx)
                    continue
                mm = re.match(r"^findRoot(\d+)\(.*\);$", line)
                if mm:
                    toks.append("n" + mm.group(1))
                    continue
                toks.append("?" + line[:20])
        out[key] = ",".join(toks)
    return out


# ------------------------------------------------------------------------------------------ execution with a recording callback

NLA_SOLVER = r'''
static int nlaCalls = 0, nlaFail = 0;
static int solveLinear(size_t n, double *a, double *b)
{
    for (size_t c = 0; c < n; ++c) {
        size_t p = c;
        for (size_t r = c + 1; r < n; ++r) if (fabs(a[r*n+c]) > fabs(a[p*n+c])) p = r;
        if (!(fabs(a[p*n+c]) > 0.0)) return 0;
        if (p != c) {
            for (size_t k = 0; k < n; ++k) { double t = a[c*n+k]; a[c*n+k] = a[p*n+k]; a[p*n+k] = t; }
            double t = b[c]; b[c] = b[p]; b[p] = t;
        }
        for (size_t r = c + 1; r < n; ++r) {
            double m = a[r*n+c]/a[c*n+c];
            for (size_t k = c; k < n; ++k) a[r*n+k] -= m*a[c*n+k];
            b[r] -= m*b[c];
        }
    }
    for (size_t i = n; i-- > 0;) {
        double s = b[i];
        for (size_t k = i + 1; k < n; ++k) s -= a[i*n+k]*b[k];
        b[i] = s/a[i*n+i];
    }
    return 1;
}
static double maxAbs(size_t n, const double *f)
{
    double m = 0.0;
    for (size_t i = 0; i < n; ++i) { if (!(fabs(f[i]) <= m)) m = fabs(f[i]); }
    return m;
}
void nlaSolve(void (*objectiveFunction)(double *, double *, void *), double *u, size_t n, void *data)
{
    double *f = malloc(n*sizeof(double)), *f2 = malloc(n*sizeof(double)), *jac = malloc(n*n*sizeof(double));
    double *du = malloc(n*sizeof(double)), *un = malloc(n*sizeof(double));
    int ok = 0;
    ++nlaCalls;
    for (int it = 0; it < 200; ++it) {
        objectiveFunction(u, f, data);
        double nf = maxAbs(n, f);
        if (nf <= 1e-13) { ok = 1; break; }
        if (!(nf == nf) || isinf(nf)) break;
        for (size_t j = 0; j < n; ++j) {
            double h = 1e-7*fmax(1.0, fabs(u[j])), keep = u[j];
            u[j] = keep + h;
            objectiveFunction(u, f2, data);
            u[j] = keep;
            for (size_t i = 0; i < n; ++i) jac[i*n+j] = (f2[i] - f[i])/h;
        }
        for (size_t i = 0; i < n; ++i) du[i] = -f[i];
        if (!solveLinear(n, jac, du)) break;
        double lambda = 1.0;
        int improved = 0;
        for (int k = 0; k < 30; ++k) {
            for (size_t i = 0; i < n; ++i) un[i] = u[i] + lambda*du[i];
            objectiveFunction(un, f2, data);
            double n2 = maxAbs(n, f2);
            if (n2 == n2 && n2 < nf) { improved = 1; break; }
            lambda *= 0.5;
        }
        if (!improved) { if (nf <= 1e-9) ok = 1; break; }
        for (size_t i = 0; i < n; ++i) u[i] = un[i];
    }
    objectiveFunction(u, f, data);
    if (!ok && maxAbs(n, f) <= 1e-9) ok = 1;
    if (!ok) ++nlaFail;
    free(f); free(f2); free(jac); free(du); free(un);
}
'''

C_MAIN = r'''
/* main written by checks/c20.py: runs the four methods with a RECORDING external-variable callback */
#include <math.h>
#include <stdio.h>
#include <stdlib.h>
#include <string.h>
#include "model.h"
@NLA@
static const char *phase = "none";
static void dumpArray(const char *name, const double *a, size_t n)
{
    printf(" %s", name);
    for (size_t i = 0; i < n; ++i) printf(" %.17g", a[i]);
}
/* the value of an external variable depends on its index and on the variable of integration */
static double value(double voi, size_t index) { return 1.5 + 0.25*(double) index + 0.5*voi; }
#if !C20_EXT
#if C20_ODE
#define DUMP() printf("end %s", phase); dumpArray("S", states, STATE_COUNT); dumpArray("R", rates, STATE_COUNT); dumpArray("V", variables, VARIABLE_COUNT); printf("\n")
#else
#define DUMP() printf("end %s", phase); dumpArray("V", variables, VARIABLE_COUNT); printf("\n")
#endif
#elif C20_ODE
static double callback(double voi, double *states, double *rates, double *variables, size_t index)
{
    printf("cb %s %zu", phase, index);
    dumpArray("S", states, STATE_COUNT); dumpArray("R", rates, STATE_COUNT); dumpArray("V", variables, VARIABLE_COUNT);
    printf("\n");
    return value(voi, index);
}
#define DUMP() printf("end %s", phase); dumpArray("S", states, STATE_COUNT); dumpArray("R", rates, STATE_COUNT); dumpArray("V", variables, VARIABLE_COUNT); printf("\n")
#else
static double callback(double *variables, size_t index)
{
    printf("cb %s %zu", phase, index);
    dumpArray("V", variables, VARIABLE_COUNT);
    printf("\n");
    return value(0.0, index);
}
#define DUMP() printf("end %s", phase); dumpArray("V", variables, VARIABLE_COUNT); printf("\n")
#endif
int main(void)
{
    double *variables = createVariablesArray();
#if C20_ODE
    double voi = @VOI@;
    double *states = createStatesArray();
    double *rates = createStatesArray();
#if C20_EXT
    phase = "init"; initialiseVariables(@VOI0@, states, rates, variables, callback); DUMP();   /* another time than below */
    phase = "consts"; computeComputedConstants(variables); DUMP();
    phase = "rates"; computeRates(voi, states, rates, variables, callback); DUMP();
    phase = "vars"; computeVariables(voi, states, rates, variables, callback); DUMP();
#else
    phase = "init"; initialiseVariables(states, rates, variables); DUMP();
    phase = "consts"; computeComputedConstants(variables); DUMP();
    phase = "rates"; computeRates(voi, states, rates, variables); DUMP();
    phase = "vars"; computeVariables(voi, states, rates, variables); DUMP();
#endif
#else
#if C20_EXT
    phase = "init"; initialiseVariables(variables, callback); DUMP();
    phase = "consts"; computeComputedConstants(variables); DUMP();
    phase = "vars"; computeVariables(variables, callback); DUMP();
#else
    phase = "init"; initialiseVariables(variables); DUMP();
    phase = "consts"; computeComputedConstants(variables); DUMP();
    phase = "vars"; computeVariables(variables); DUMP();
#endif
#endif
    printf("nla %d %d\n", @NLACOUNTS@);
    printf("done\n");
    return 0;
}
'''


def _floats(ts):
    return [float(x) for x in ts]


def run_generated(iface_h, impl_c, workdir, name, timeout=20):
    """compile + run; returns dict(ok, error, events=[(phase, index, arrays)], ends={phase: arrays}, nla=(calls, fails))"""
    d = os.path.join(workdir, name + ".cdir")
    os.makedirs(d, exist_ok=True)
    ode = "STATE_COUNT" in iface_h
    nla = "nlaSolve" in impl_c
    main = C_MAIN.replace("@NLA@", NLA_SOLVER if nla else "").replace("@VOI@", repr(VOI_VALUE)).replace("@VOI0@", repr(VOI_INIT)) \
        .replace("@NLACOUNTS@", "nlaCalls, nlaFail" if nla else "0, 0")
    for fn, txt in (("model.h", iface_h), ("model.c", impl_c), ("main.c", main)):
        with open(os.path.join(d, fn), "w") as f:
            f.write(txt)
    res = {"ok": False, "error": None, "events": [], "ends": {}, "nla": (0, 0), "ode": ode, "dir": d}
    try:
        has_cb = "ExternalVariable" in iface_h
        p = subprocess.run(["cc", "-O0", "-w", "-DC20_ODE=%d" % (1 if ode else 0), "-DC20_EXT=%d" % (1 if has_cb else 0),
                            "model.c", "main.c", "-lm", "-o", "prog"],
                           cwd=d, timeout=120, stdout=subprocess.PIPE, stderr=subprocess.STDOUT)
        if p.returncode != 0:
            res["error"] = "compile: " + p.stdout.decode("utf-8", "replace")[-600:]
            return res
        p = subprocess.run([os.path.join(d, "prog")], cwd=d, timeout=timeout, stdout=subprocess.PIPE, stderr=subprocess.STDOUT)
    except subprocess.TimeoutExpired:
        res["error"] = "timeout"
        return res
    out = p.stdout.decode("utf-8", "replace")
    if p.returncode != 0 or "done" not in out:
        res["error"] = "run rc=%s %s" % (p.returncode, out[-300:])
        return res

    def arrays(ts):
        a = {"S": [], "R": [], "V": []}
        cur = None
        for t in ts:
            if t in a:
                cur = t
            else:
                a[cur].append(float(t))
        return a
    for line in out.split("\n"):
        t = line.split()
        if not t:
            continue
        if t[0] == "cb":
            res["events"].append((t[1], int(t[2]), arrays(t[3:])))
        elif t[0] == "end":
            res["ends"][t[1]] = arrays(t[2:])
        elif t[0] == "nla":
            res["nla"] = (int(t[1]), int(t[2]))
    res["ok"] = True
    for fn in ("prog",):
        try:
            os.remove(os.path.join(d, fn))
        except OSError:
            pass
    return res


def eval_side(e, ops, val):
    """value of one side of an equation, consuming the operator rotation exactly as gen/abstract_systems._expr_xml does"""
    if e[0] == "V":
        return val(("v", e[1]))
    if e[0] == "D":
        return val(("d", e[2]))
    if e[0] == "N":
        return val(("n", None))
    op = ops[0]
    ops.append(ops.pop(0))
    a = eval_side(e[1], ops, val)
    b = eval_side(e[2], ops, val)
    return a + b if op == "plus" else (a - b if op == "minus" else a * b)


def same(a, b, tol=1e-9):
    if math.isnan(a) or math.isnan(b):
        return math.isnan(a) and math.isnan(b)
    if math.isinf(a) or math.isinf(b):
        return a == b
    return abs(a - b) <= tol * max(1.0, abs(a), abs(b))


def check_execution(system, an, marks_kept, run, ignore_eqs=frozenset()):
    """oracle (e) on one executed case.  an = Analysis of the marked run; marks_kept = X field (the marks as the API kept
    them).  Returns (violations [(kind, text)], known [(finding id, text)], stats dict)."""
    viol, known, stats = [], [], {"callbacks": len(run["events"]), "value_checks": 0, "nla_skipped": 0, "dep_checks": 0}
    cls = an.cls
    ext = {k: v for k, v in an.vars.items() if v["type"] == "external"}
    ext_by_index = {v["index"]: k for k, v in ext.items()}
    last_phase = "vars"
    final = run["ends"].get(last_phase)
    if final is None:
        return [("exec", "no final dump")], known, stats

    def slot(k, arrays, rate=False):
        if k == an.voi:
            return VOI_VALUE
        v = an.vars.get(k)
        if v is None:
            return float("nan")
        if v["array"] == "states":
            return arrays["R" if rate else "S"][v["index"]]
        return arrays["V"][v["index"]]
    # (e1) the callback is the only source of the external values
    def cbvalue(index, voi):
        return 1.5 + 0.25 * index + (0.5 * voi if run["ode"] else 0.0)
    for k, v in ext.items():
        got = final["V"][v["index"]]
        if not same(got, cbvalue(v["index"], VOI_VALUE), 0.0):
            viol.append(("external-value", "external variable %s (variables[%d]) holds %r, the callback returned %r" % (
                v["var"], v["index"], got, cbvalue(v["index"], VOI_VALUE))))
    for ph, idx, _a in run["events"]:
        if idx not in ext_by_index:
            viol.append(("callback-index", "callback invoked for index %d which is not an external variable" % idx))
    called = {(ph, idx) for ph, idx, _ in run["events"]}
    for k, v in ext.items():
        if ("vars", v["index"]) not in called:
            viol.append(("callback-missing", "computeVariables never calls the callback for external variable %s" % v["var"]))
    # (e2) declared dependencies are computed when the callback runs
    deps_of = {}          # external class -> list of dependency classes (as accepted by addDependency, first mark of the class wins)
    for m in marks_kept:
        v, ds, bits = m
        if v.startswith("F") or bits.endswith("!"):
            continue
        a, b = v.split(".")
        k = cls[(int(a), int(b))]
        if k in deps_of or k not in ext:
            continue
        deps_of[k] = [cls[(int(x.split(".")[0]), int(x.split(".")[1]))] for x in ds if x and not x.startswith("F")]
    # NaN provenance.  [tainted]: classes INITIALISED from a variable that is marked external (initial_value names it:
    # initialiseVariables copies the external variable's array entry before the callback has ever been called) and what is
    # computed from them.  [unrelated_nan]: classes initialised from another (non-external) variable whose own initialisation
    # comes later in initialiseVariables, and what is computed from them — the generator's ordering of initialisations is C03's.
    reads = {}
    roots_ext, roots_other = set(), set()
    for c in system["comps"]:
        byname = {v["name"]: v["cls"] for v in c["vars"]}
        for q in c["eqs"]:
            info = an.eqs.get(str(q["id"]))
            if info is None:
                continue
            ks = {byname[n] for n in A.expr_names(q["lhs"]) + A.expr_names(q["rhs"])}
            for k in info["vars"]:
                reads.setdefault(k, set()).update(ks - {k})
        for v in c["vars"]:
            if isinstance(v["init"], list) and v["cls"] not in ext:
                src = byname.get(v["init"][1])
                if src in ext:
                    roots_ext.add(v["cls"])
                elif v["cls"] in an.vars and math.isnan(slot(v["cls"], final)):
                    roots_other.add(v["cls"])

    def closure(roots):
        out = set(roots)
        grew = True
        while grew:
            grew = False
            for k, ks in reads.items():
                if k not in out and k not in ext and ks & out:
                    out.add(k)
                    grew = True
        return out
    tainted = closure(roots_ext)
    unrelated_nan = closure(roots_other)
    # reachability in the equation dependency graph (for the cyclic carve-out)
    def reaches(src_eqs, target):
        seen, todo = set(), list(src_eqs)
        while todo:
            e = todo.pop()
            if e in seen:
                continue
            seen.add(e)
            if e == target:
                return True
            for x in [e] + [s_ for s_ in an.eqs.get(e, {}).get("sibs", []) if s_ in an.eqs]:      # an NLA system is one node
                if x != e:
                    todo.append(x)
                todo.extend(d for d in an.eqs.get(x, {}).get("deps", []) if an.eqs.get(d, {}).get("type") != "ode")
        return False
    # is an external equation on a cycle of the dependency graph (edges into ODEs are never followed)?
    def succ(e):
        return [d for d in an.eqs.get(e, {}).get("deps", []) if an.eqs.get(d, {}).get("type") != "ode"]
    cyc_ext_eqs = [e for e in an.eq_order if an.eqs[e]["type"] == "external" and any(reaches([d], e) for d in succ(e))]
    cyc_ext = bool(cyc_ext_eqs)
    for ph, idx, arrays in run["events"]:
        k = ext_by_index.get(idx)
        if k is None:
            continue
        xeq = an.vars[k]["eqs"][0] if an.vars[k]["eqs"] else None
        for d in deps_of.get(k, []):
            if d == an.voi or d not in an.vars:
                continue
            dv = an.vars[d]
            stats["dep_checks"] += 1
            at_call = slot(d, arrays)
            at_end = slot(d, run["ends"][ph])
            # the dependency is computed from this external variable, or from another external variable that lies on a cycle
            cyclic = (xeq is not None and reaches(dv["eqs"], xeq)) or any(reaches(dv["eqs"], ce) for ce in cyc_ext_eqs)
            computed_here = dv["type"] in ("computed_constant", "algebraic", "external")
            bad = math.isnan(at_call) or not same(at_call, at_end, 0.0)
            if not bad:
                continue
            if math.isnan(slot(d, final)) and d not in tainted and (d in unrelated_nan or not cyc_ext):
                # the dependency is NaN even after computeVariables: not a matter of ordering (e.g. a constant initialised
                # from a constant that is itself initialised later: C03's domain)
                stats["nan_dependency"] = stats.get("nan_dependency", 0) + 1
                continue
            text = "%s: callback for %s runs while its declared dependency %s (%s) is %r (value at the end of the method: %r)" % (
                ph, an.vars[k]["var"], dv["var"], dv["type"], at_call, at_end)
            if d in tainted and math.isnan(at_end):
                known.append(("C20-initialised-from-external", text))
            elif cyclic:
                known.append(("C20-cyclic-declared-dependency", text))
            elif ph == "init" and computed_here:
                known.append(("C20-initialise-callback-before-dependencies", text))
            else:
                viol.append(("callback-order", text))
    # (e4) variables initialised from a variable that is marked external
    init_end = run["ends"].get("init")
    if init_end is not None:
        for c in system["comps"]:
            byname = {v["name"]: v["cls"] for v in c["vars"]}
            for v in c["vars"]:
                if isinstance(v["init"], list) and byname.get(v["init"][1]) in ext and v["cls"] in an.vars and v["cls"] not in ext:
                    got = slot(v["cls"], init_end)
                    want = cbvalue(ext[byname[v["init"][1]]]["index"], VOI_INIT)
                    if not same(got, want, 0.0):
                        known.append(("C20-initialised-from-external",
                                      "after initialiseVariables %s (initial_value = a variable marked external) holds %r, not the callback's value %r" % (
                                          an.vars[v["cls"]]["var"], got, want)))
    # (e3) all other values satisfy the equations
    def stale_external(e):
        """the failing NLA equation reads an external variable on whose placeholder equation it does not depend"""
        if an.eqs[e]["type"] != "nla":
            return False
        for c in system["comps"]:
            byname = {v["name"]: v["cls"] for v in c["vars"]}
            for q in c["eqs"]:
                if str(q["id"]) == e:
                    for k in {byname[n] for n in A.expr_names(q["lhs"]) + A.expr_names(q["rhs"])}:
                        if k in ext and ext[k]["eqs"] and ext[k]["eqs"][0] not in an.eqs[e]["deps"]:
                            return True
        return False
    def rate_of_external(e):
        """the equation mentions d(x)/dt of a variable x that is marked external (no longer a state)"""
        def diffs(x, out):
            if x[0] == "D":
                out.append(x[2])
            elif x[0] == "O":
                diffs(x[1], out)
                diffs(x[2], out)
            return out
        for c in system["comps"]:
            byname = {v["name"]: v["cls"] for v in c["vars"]}
            for q in c["eqs"]:
                if str(q["id"]) == e:
                    return any(byname[n] in ext for n in diffs(q["lhs"], []) + diffs(q["rhs"], []))
        return False
    for e, text in value_failures(system, an, run, stats):
        if rate_of_external(e):
            known.append(("C20-rate-of-external-variable", text + " (the generated code uses the VALUE of the external variable where its rate is meant)"))
        elif stale_external(e):
            known.append(("C20-nla-external-dependency", text + " (solved with the value the external variable had in initialiseVariables)"))
        elif e in ignore_eqs:
            stats["value_failures_also_without_marks"] = stats.get("value_failures_also_without_marks", 0) + 1
        elif cyc_ext:
            known.append(("C20-cyclic-declared-dependency", text))
        elif nla_cycle(an):
            # mutually dependent NLA systems (the analyser's reading of initial guesses as extra unknowns, C05's known
            # findings): no emission order can satisfy them in one pass; not held against the external variables
            stats["value_failures_in_mutually_dependent_nla_systems"] = stats.get("value_failures_in_mutually_dependent_nla_systems", 0) + 1
        else:
            viol.append(("value", text))
    return viol, known, stats


def nla_cycle(an):
    """the dependency graph of the equations, NLA systems contracted and edges into ODEs dropped, has a cycle"""
    group = {}
    for e in an.eq_order:
        group.setdefault(e, e)
    def find(x):
        while group.get(x, x) != x:
            x = group[x]
        return x
    for e in an.eq_order:
        for s_ in an.eqs[e]["sibs"]:
            if s_ in an.eqs:
                group[find(s_)] = find(e)
    edges = {}
    for e in an.eq_order:
        for d in an.eqs[e]["deps"]:
            if d in an.eqs and an.eqs[d]["type"] != "ode" and find(d) != find(e):
                edges.setdefault(find(e), set()).add(find(d))
    state = {}
    def visit(x):
        if state.get(x) == 2:
            return False
        if state.get(x) == 1:
            return True
        state[x] = 1
        r = any(visit(y) for y in edges.get(x, ()))
        state[x] = 2
        return r
    return any(visit(find(e)) for e in an.eq_order)


def value_failures(system, an, run, stats):
    """[(equation id, text)] for the non-external equations that do not hold after computeVariables"""
    out = []
    final = run["ends"].get("vars")

    def slot(k, arrays, rate=False):
        if k == an.voi:
            return VOI_VALUE
        v = an.vars.get(k)
        if v is None:
            return float("nan")
        if v["array"] == "states":
            return arrays["R" if rate else "S"][v["index"]]
        return arrays["V"][v["index"]]
    # scaled units: the arrays hold every class in the units of its primary variable; inside component ci a value reads
    # value * scale(primary's component) / scale(ci); a rate is divided by the same ratio for the variable of integration
    us = system.get("_units")

    def scale_of(k, ci):
        if not us:
            return 1.0
        pv = an.voi_var if k == an.voi else an.vars.get(k, {}).get("var")
        if pv is None:
            return 1.0
        return UNITS[us[int(pv.split(".")[0])]] / UNITS[us[ci]]
    eqn = {}
    for ci, c in enumerate(system["comps"]):
        byname = {v["name"]: v["cls"] for v in c["vars"]}
        for q in c["eqs"]:
            eqn[str(q["id"])] = (byname, q, ci)
    for e in an.eq_order:
        info = an.eqs[e]
        if info["type"] == "external" or e not in eqn:
            continue
        byname, q, ci = eqn[e]

        def val(x, byname=byname, q=q, ci=ci):
            kind, n = x
            if kind == "n":
                return float(q["id"])
            k = byname[n]
            f = scale_of(k, ci)
            if kind == "d":
                if an.vars.get(k, {}).get("array") != "states":
                    return float("nan")          # the rate of a variable that is not a state is not available anywhere
                if an.voi is not None:
                    f = f / scale_of(an.voi, ci)
            return slot(k, final, rate=(kind == "d")) * f
        ops = A.OPS[q["id"] % 3:] + A.OPS[:q["id"] % 3]
        lhs = eval_side(q["lhs"], ops, val)
        rhs = eval_side(q["rhs"], ops, val)
        if info["type"] == "nla":
            if run["nla"][1] > 0:
                stats["nla_skipped"] += 1
                continue
            ok = same(lhs, rhs, 1e-6)
        else:
            ok = same(lhs, rhs, 1e-9)
        stats["value_checks"] += 1
        if not ok:
            out.append((e, "after computeVariables equation %s (%s) does not hold: lhs=%r rhs=%r" % (e, info["type"], lhs, rhs)))
    return out


# ------------------------------------------------------------------------------------------ case construction

def make_variants(rng, base_system, base):
    """underconstrained variants: (variant system, system with the unknown as a constant, marked classes' variables)"""
    out = []
    cls = A.class_of(base_system)
    # (A) a constant loses its initial value
    consts = [k for k, v in base.vars.items() if v["type"] == "constant"]
    referenced = set()
    for c in base_system["comps"]:
        byname = {v["name"]: v["cls"] for v in c["vars"]}
        for v in c["vars"]:
            if isinstance(v["init"], list):
                referenced.add(byname.get(v["init"][1]))
    consts = [k for k in consts if k not in referenced]
    if consts:
        k = rng.choice(consts)
        s = json.loads(json.dumps(base_system))
        ok = True
        for c in s["comps"]:
            for v in c["vars"]:
                if v["cls"] == k:
                    if isinstance(v["init"], list):
                        ok = False
                    v["init"] = None
        if ok:
            out.append(("constant-without-value", s, base_system, [base.vars[k]["var"]]))
    # (C) a state loses its initial value ("is used in an ODE, but it is not initialised"); marked, it should be an input
    sts = [k for k, v in base.vars.items() if v["type"] == "state"]
    if sts:
        k = rng.choice(sts)
        s = json.loads(json.dumps(base_system))
        for c in s["comps"]:
            for v in c["vars"]:
                if v["cls"] == k:
                    v["init"] = None
        out.append(("state-without-value", s, base_system, [base.vars[k]["var"]]))
    # (B) the equation of a directly computed variable is dropped
    direct = [k for k, v in base.vars.items() if v["type"] in ("algebraic", "computed_constant") and len(v["eqs"]) == 1
              and base.eqs.get(v["eqs"][0], {}).get("type") in ("algebraic", "true_constant", "variable_based_constant")]
    if direct:
        k = rng.choice(direct)
        eid = int(base.vars[k]["eqs"][0])
        s = json.loads(json.dumps(base_system))
        for c in s["comps"]:
            c["eqs"] = [q for q in c["eqs"] if q["id"] != eid]
        s2 = json.loads(json.dumps(s))
        a, b = base.vars[k]["var"].split(".")
        s2["comps"][int(a)]["vars"][int(b)]["init"] = "c"
        out.append(("equation-dropped", s, s2, [base.vars[k]["var"]]))
    return out


# ------------------------------------------------------------------------------------------ the check

def run(ctx):
    quick = ctx.quick()
    ctx.proofs()
    ctx.assumptions += [
        "the abstraction of C05: all units dimensionless, MathML restricted to eq / binary plus,minus,times / diff / ci / cn; "
        "equivalence classes are taken as given (Parser, areEquivalentVariables are C02's and C18's)",
        "equations are recognised in the AnalyserModel by the single <cn> each carries, EXTERNAL equations by the variable they compute",
        "the model is the REPAIRED code (fixes/C20-voi-external.diff: ExternalDefs.voi_fix = true; "
        "fixes/C20-nla-sibling-dependencies.diff: ExternalDefs.sibling_fix = true; "
        "fixes/C20-uninitialised-state-rescue.diff: ExternalDefs.state_rescue_fix = true, accepted either way until it is in the tree)",
        "emission order: the statements of the four generated methods are recognised by their left-hand sides "
        "(variables[i] / states[i] / rates[i] / findRoot<i> / externalVariable(..., i)); expression text is C03's",
        "execution (A-cc): the C compiler, libm, and a damped-Newton nlaSolve supplied by the check; NLA residuals are only "
        "checked when that solver converged; the callback returns a value that depends on the index only",
        "independence is the UNDIRECTED notion: a class is independent of the marking when no chain of equations links it to a "
        "marked class (the variable of differentiation of a diff does not link)",
    ]
    ctx.level = "proof"
    drv, mdl = drivers()
    # a directory of its own for this run's case files and programs (two runs of the check may overlap)
    shared_workdir = ctx.workdir
    rundir = os.path.join(shared_workdir, "%s-%d" % (ctx.tier, os.getpid()))
    os.makedirs(rundir, exist_ok=True)
    ctx.workdir = rundir
    rng = ctx.rng
    n_models = 40 if quick else 600
    per_model = 25 if quick else 50
    n_exec_max = 1200 if quick else 6000

    # ---- models and their unmarked analysis
    systems = []
    corpus = os.path.join(vf.ROOT, "corpus", "C20.jsonl")
    seeds = [json.loads(l) for l in open(corpus) if l.strip()] if os.path.exists(corpus) else []
    for sd in seeds:
        systems.append((sd["system"], sd.get("marks")))
    while len(systems) < n_models + len(seeds):
        s = A.random_system(rng, max_classes=rng.choice([4, 6, 8, 10]))
        # every second multi-component system: compatible but differently scaled units per component (volt / millivolt /
        # kilovolt), so that the uses of a connected variable in another component carry a scaling factor
        if len(s["comps"]) > 1 and rng.random() < 0.6:
            names = list(UNITS)
            rng.shuffle(names)
            s["_units"] = [names[i % 3] for i in range(len(s["comps"]))]
        systems.append((s, None))
    # NLA equations coupled through the variables that get marked (grouping after pruning)
    n_nla = 40 if quick else 500
    n_nla_systems = 0
    for _ in range(n_nla):
        s, ms = nla_coupled_system(rng)
        systems.append((s, {"markings": ms}))
        n_nla_systems += 1
    base_raw = run_sharded(drv, [], ["%s g -" % cellml_hex(s) for s, _ in systems], ctx.workdir, "base")
    base_impl = [re.sub(r"(?<= I=)\S*", lambda m: ",".join(x for x in m.group(0).split(",") if x and not x.startswith("W:UNITS")),
                        strip_fields(l, ("CH", "CC")), count=1) for l in base_raw]
    bases = [Analysis(s, l) for (s, _), l in zip(systems, base_impl)]

    # the unmarked programs are run as well: an equation that does not hold WITHOUT marks (e.g. the cyclic NLA dependencies of
    # C05's known findings) is not held against the external variables
    def base_job(mi):
        f = fields(base_raw[mi])
        if "CC" not in f or not bases[mi].valid:
            return mi, frozenset()
        rn = run_generated(bytes.fromhex(f.get("CH", "")).decode(), bytes.fromhex(f["CC"]).decode(), ctx.workdir, "b%d" % mi)
        if not rn["ok"]:
            return mi, None
        st = {"value_checks": 0, "nla_skipped": 0}
        return mi, frozenset(e for e, _ in value_failures(systems[mi][0], bases[mi], rn, st))
    with ThreadPoolExecutor(max_workers=vf.NCPU) as ex:
        base_bad = dict(ex.map(base_job, range(len(systems))))
    n_base_bad = sum(1 for v in base_bad.values() if v)
    n_base_fail = sum(1 for v in base_bad.values() if v is None)

    cases = []       # dict(kind, mi, system, marks, roles, gen, extra)
    hist = {"model_type": {}, "roles_marked": {r: 0 for r in ROLES}, "roles_by_model_type": {}, "marks_per_case": {},
            "case_kind": {}, "marked_result_type": {}, "dependency_graph": {}, "nla_coupled_systems": {}, "systems_with_scaled_units": 0, "nla_systems_in_marked_results": {}, "messages": {}, "adddependency_refused": 0, "adddependency_accepted": 0,
            "executed": 0, "callbacks": 0, "dependency_checks_at_runtime": 0, "value_checks": 0, "nla_not_converged": 0,
            "independent_classes_compared": 0, "value_failures_also_without_marks": 0, "unmarked_models_with_failing_equations": 0, "not_executed_unmarked_program_fails": 0, "value_failures_in_mutually_dependent_nla_systems": 0, "variants": {}, "models_becoming_invalid_when_marked": 0}

    def bump(h, k, n=1):
        hist[h][k] = hist[h].get(k, 0) + n
    for mi, ((s, fixed_marks), b) in enumerate(zip(systems, bases)):
        if not b.ok or not b.valid:
            continue
        bump("model_type", b.type)
        if s.get("_units"):
            hist["systems_with_scaled_units"] += 1
        if isinstance(fixed_marks, dict):
            marks_list = [(m, ["nla_coupling"]) for m in fixed_marks["markings"]]
            bump("nla_coupled_systems", b.type)
        elif fixed_marks is not None:
            marks_list = [([tuple(m) for m in fixed_marks], [])]
        else:
            marks_list = gen_markings(rng, s, b, per_model, exhaustive=not quick)
        for marks, roles in marks_list:
            orig = len(cases)
            cases.append({"kind": "marked", "mi": mi, "system": s, "marks": marks, "roles": roles, "gen": True})
            norm = normalise(s, b, marks)
            if marks_text(norm) != marks_text(marks):
                cases.append({"kind": "normalised", "mi": mi, "system": s, "marks": norm, "roles": [], "gen": False, "of": orig})
            if rng.random() < 0.25 and local_marks(marks):
                mem = members_by_class(s)
                cls = A.class_of(s)
                sw = []
                for v, ds in marks:
                    if v.startswith("F") or v.startswith("="):
                        sw.append((v, ds))
                    else:
                        a, c2 = v.split(".")
                        sw.append((tok(rng.choice(mem[cls[(int(a), int(c2))]])), ds))
                cases.append({"kind": "retargeted", "mi": mi, "system": s, "marks": sw, "roles": [], "gen": False, "of": orig})
        # ill-posed variants of the system, marked: correspondence only (which messages survive an error, model types)
        if mi % 3 == 0 and "truth" in s:
            for fvar in A.ILL_POSED:
                sv = fvar(rng, s)
                if sv is None:
                    continue
                for marks, _roles in gen_markings(rng, sv, b, 3, exhaustive=False)[-3:]:
                    cases.append({"kind": "ill-posed", "mi": mi, "system": sv, "marks": marks, "roles": [], "gen": False})
        # underconstrained variants
        for name, sv, sconst, vars_ in make_variants(rng, s, b):
            i0 = len(cases)
            cases.append({"kind": "variant-unmarked", "mi": mi, "system": sv, "marks": [], "roles": [], "gen": False, "variant": name})
            cases.append({"kind": "variant-as-constant", "mi": mi, "system": sconst, "marks": [], "roles": [], "gen": False, "variant": name})
            cases.append({"kind": "variant-marked", "mi": mi, "system": sv, "marks": [(v, []) for v in vars_], "roles": [], "gen": True, "variant": name,
                          "group": i0})
            # marking ANOTHER class, not linked to the unknown by any chain of equations, must not rescue the unknown
            clsv = A.class_of(sv)
            unknown_k = {clsv[tuple(int(z) for z in v.split("."))] for v in vars_}
            lk = linked_classes(sv, unknown_k)      # a marked class that shares equations with the unknown may legitimately determine it
            others = [x["var"] for k2, x in b.vars.items() if k2 not in unknown_k and k2 not in lk]
            if others:
                cases.append({"kind": "variant-other-marked", "mi": mi, "system": sv, "marks": [(rng.choice(others), [])], "roles": [], "gen": False,
                              "variant": name, "group": i0, "unknown": sorted(unknown_k)})
    hist["unmarked_models_with_failing_equations"] = n_base_bad
    hist["unmarked_models_whose_program_does_not_build_or_run"] = n_base_fail
    ctx.log("models: %d valid of %d; cases: %d" % (sum(1 for b in bases if b.ok and b.valid), len(systems), len(cases)))

    # which cases are executed
    exec_candidates = [i for i, c in enumerate(cases) if c["gen"]]
    rng.shuffle(exec_candidates)
    exec_set = set(exec_candidates[:n_exec_max])
    cml_cache = {}

    def hexdoc(s):
        key = id(s)
        if key not in cml_cache:
            cml_cache[key] = cellml_hex(s)
        return cml_cache[key]
    impl_lines = ["%s %s %s" % (hexdoc(c["system"]), "g" if i in exec_set else "-", marks_text(c["marks"])) for i, c in enumerate(cases)]
    mdl_lines = ["%s | %s" % (A.to_model_line(c["system"]), marks_text(c["marks"])) for c in cases]
    impl_raw = run_sharded(drv, [], impl_lines, ctx.workdir, "impl")
    # a case that timed out or went missing is run once more, on its own (the alarm is wall-clock time on a shared machine)
    again = [i for i, l in enumerate(impl_raw) if l.startswith("TIMEOUT") or l == "<missing>"]
    if again:
        ctx.log("re-running %d cases that timed out" % len(again))
        for i, l in zip(again, run_sharded(drv, [], [impl_lines[i] for i in again], ctx.workdir, "impl_again")):
            impl_raw[i] = l
    ctx.log("implementation driver done")
    model_raw = run_sharded(mdl, ["analyse"], mdl_lines, ctx.workdir, "model")
    ctx.log("model driver done")

    nviol = [0]

    def violation(what, name, content):
        nviol[0] += 1
        if nviol[0] <= 5:
            ctx.violation(what, "%s_%d.json" % (name, nviol[0]), content)

    def payload(i, extra=None):
        c = cases[i]
        d = {"kind": c["kind"], "system": c["system"], "marks": [list(m) for m in c["marks"]], "marks_text": marks_text(c["marks"]),
             "model_line": A.to_model_line(c["system"]), "cellml": cellml_text(c["system"]),
             "impl": strip_fields(impl_raw[i], ("CH", "CC")), "model": model_raw[i],
             "base": strip_fields(base_impl[c["mi"]], ("CH", "CC"))}
        if extra:
            d.update(extra)
        return d

    def drop_unit_warnings(l):
        return re.sub(r"(?<= I=)\S*", lambda m: ",".join(x for x in m.group(0).split(",") if x and not x.startswith("W:UNITS")), l, count=1)
    impl = [drop_unit_warnings(strip_fields(l, ("CH", "CC"))) for l in impl_raw]
    model = [strip_fields(l, ("BI", "BC", "BR", "BV", "ACY", "ORD")) for l in model_raw]
    ans = [Analysis(c["system"], l) for c, l in zip(cases, impl)]
    distinct = set()
    late = []
    late_idx = []
    mismatch = 0
    mismatch_idx = []
    emission_idx = []
    emission_mismatch = 0
    jobs = []
    for i, c in enumerate(cases):
        a = ans[i]
        b = bases[c["mi"]]
        bump("case_kind", c["kind"])
        if not a.ok:
            violation("C20: implementation %s" % impl[i][:60], "impl_failure", payload(i))
            continue
        bump("marked_result_type", a.type)
        if c["kind"] == "marked" and a.valid:
            nsys = len({x["nla"] for x in a.eqs.values() if x["type"] == "nla"})
            if nsys:
                bump("nla_systems_in_marked_results", str(nsys))
        if "ACY" in fields(model_raw[i]):
            bump("dependency_graph", "acyclic" if fields(model_raw[i])["ACY"] == "1" else "cyclic")
        # ---- correspondence: exact
        if impl[i] != model[i]:
            mismatch += 1
            mismatch_idx.append(i)
            if len(late) < 40:
                late.append(("C20 correspondence: analyser and model differ", "correspondence", payload(i)))
                late_idx.append(i)
        mf = fields(model_raw[i])
        if mf.get("ACY") == "1" and mf.get("ORD") != "1111":
            violation("C20 model: emission order of the model violates ExternalDefs.ordered_from (%s)" % mf["ORD"], "model_order", payload(i))
        if c["kind"] in ("marked", "variant-marked"):
            bump("marks_per_case", str(len(c["marks"])))
            for r in c["roles"]:
                hist["roles_marked"][r] = hist["roles_marked"].get(r, 0) + 1
                bump("roles_by_model_type", "%s/%s" % (b.type, r))
            for m in a.messages():
                bump("messages", m.split(":")[1])
            for it in a.f.get("X", "").split(";"):
                if it:
                    bits = it.split(":")[2]
                    hist["adddependency_refused"] += bits.count("0")
                    hist["adddependency_accepted"] += bits.count("1")
            if len(local_marks(c["marks"])) >= 1 and sum(len(k["eqs"]) for k in c["system"]["comps"]) >= 2:
                distinct.add(mdl_lines[i])
        if c["kind"] != "marked":
            continue
        cls = a.cls
        marked_k = []
        for v, ds in local_marks(c["marks"]):
            x, y = v.split(".")
            marked_k.append(cls[(int(x), int(y))])
        # ---- oracle (c1): messages present
        for v, ds in c["marks"]:
            if v.startswith("F") and ("M:EXT_FOREIGN:%s" % v) not in a.issues:
                violation("C20 oracle: a variable of another model is marked and no message reports it", "message", payload(i))
        if b.voi in marked_k and not any(m.startswith("M:EXT_VOI:") for m in a.issues):
            violation("C20 oracle: the variable of integration is marked and no message reports it", "message", payload(i))
        for k in set(marked_k):
            if k != b.voi and marked_k.count(k) > 1 and not any(
                    m.startswith("M:EXT_PRIMARY:") and cls[tuple(int(z) for z in m.split(":")[2].split("."))] == k for m in a.issues):
                violation("C20 oracle: two variables of one class are marked and no message reports it", "message", payload(i))
        if a.errors() and not b.errors() and not a.valid:
            hist["models_becoming_invalid_when_marked"] += 1
        if not a.valid:
            continue
        # ---- oracle (a): externals exact
        want = {k for k in marked_k if k != b.voi}
        got = {k for k, v in a.vars.items() if v["type"] == "external"}
        if want != got or a.voi != b.voi:
            violation("C20 oracle: externals are not exactly the marked classes: marked %s, external %s, voi %s/%s" % (sorted(want), sorted(got), b.voi, a.voi),
                      "externals_exact", payload(i))
        for k in got:
            v = a.vars[k]
            if len(v["eqs"]) != 1 or a.eqs.get(v["eqs"][0], {}).get("type") != "external" or a.eqs[v["eqs"][0]]["vars"] != [k]:
                violation("C20 oracle: external variable %s has no placeholder equation of type external of its own" % v["var"], "placeholder", payload(i))
        # ---- oracle (a2): NLA grouping is that of the PRUNED unknown sets: the siblings of an NLA equation are the other
        #      NLA equations with which it shares a computed (hence non-external) variable
        for e in a.eq_order:
            if a.eqs[e]["type"] == "nla":
                shared = {f for f in a.eq_order if f != e and a.eqs[f]["type"] == "nla" and set(a.eqs[f]["vars"]) & set(a.eqs[e]["vars"])}
                if shared != set(a.eqs[e]["sibs"]):
                    violation("C20 oracle: NLA equation %s has siblings %s but shares a computed variable with %s" % (e, sorted(a.eqs[e]["sibs"]), sorted(shared)),
                              "nla_grouping", payload(i))
                    break
        if a.has_ext != bool(got):
            violation("C20 oracle: hasExternalVariables() = %s with external variables %s" % (a.has_ext, sorted(got)), "has_ext", payload(i))
        # ---- oracle (b): independent unchanged
        linked = linked_classes(c["system"], want)
        for k in b.vars:
            if k in linked:
                continue
            hist["independent_classes_compared"] += 1
            if a.definition(k) != b.definition(k):
                violation("C20 oracle: class %d does not depend on the marked variables but its (type, equations) changed: %s -> %s" % (
                    k, b.definition(k), a.definition(k)), "independent", payload(i))
                break
        # ---- execution (not when the program of the UNMARKED model does not build or run: C03's / C17's domain)
        if i in exec_set and a.has_ext:
            if base_bad.get(c["mi"]) is None:
                hist["not_executed_unmarked_program_fails"] += 1
            else:
                jobs.append(i)

    # ---- oracle (c2): normalised / retargeted markings give the same analysis
    for i, c in enumerate(cases):
        if c["kind"] in ("normalised", "retargeted") and ans[i].ok and ans[c["of"]].ok:
            x = strip_fields(impl[i], ("I", "X"))
            y = strip_fields(impl[c["of"]], ("I", "X"))
            ex = sorted(ans[i].errors())
            ey = sorted(ans[c["of"]].errors())
            if x != y or ex != ey:
                what = ("marking the variable of integration / a non-primary or repeated member / a foreign variable changes the analysis"
                        if c["kind"] == "normalised" else "marking another member of the same class changes the analysis")
                violation("C20 oracle: %s" % what, "marking_messages", {"with": payload(c["of"]), "normalised": payload(i)})
            if c["kind"] == "normalised" and any(m.startswith("M:EXT_VOI") or m.startswith("M:EXT_FOREIGN") for m in ans[i].messages()):
                violation("C20 oracle: a marking without foreign variables and without the variable of integration gets such a message",
                          "message_extra", payload(i))
    # ---- oracle (d): rescue
    for i, c in enumerate(cases):
        if c["kind"] != "variant-marked":
            continue
        u, k, m = ans[c["group"]], ans[c["group"] + 1], ans[i]
        if not (u.ok and k.ok and m.ok):
            continue
        name = c["variant"]
        if name == "state-without-value":
            ok_u = u.type == "underconstrained" and u.errors() and all(x.startswith("E:STATE_NOT_INIT") for x in u.errors())
            bump("variants", "%s/%s" % (name, "applicable" if ok_u and k.valid else "not-applicable"))
            if ok_u and k.valid and not m.valid:
                if not ctx.known_finding("C20-uninitialised-state-not-rescued",
                                         "a state without initial value marked as external leaves the model %s (%s)" % (m.type, ",".join(m.errors()))):
                    violation("C20 oracle: a state without initial value marked as external is not rescued (%s)" % m.type, "rescue_state",
                              {"unmarked": payload(c["group"]), "marked": payload(i)})
            continue
        applicable = (u.type == "underconstrained" and all(x.startswith("E:UNUSED") for x in u.errors()) and k.valid)
        bump("variants", "%s/%s" % (name, "applicable" if applicable else "not-applicable"))
        if not applicable:
            continue
        if not m.valid:
            violation("C20 oracle: the underconstrained system is not rescued by marking its unknown as external (%s)" % m.type, "rescue",
                      {"unmarked": payload(c["group"]), "as_constant": payload(c["group"] + 1), "marked": payload(i)})
            continue
        cls = m.cls
        for v, _ in c["marks"]:
            x, y = v.split(".")
            kk = cls[(int(x), int(y))]
            if m.vars.get(kk, {}).get("type") != "external":
                violation("C20 oracle: the rescued unknown is not an external variable", "rescue", payload(i))
        if i in exec_set and m.has_ext and base_bad.get(c["mi"]) is not None:
            jobs.append(i)

    for i, c in enumerate(cases):
        if c["kind"] != "variant-other-marked":
            continue
        u, m = ans[c["group"]], ans[i]
        if not (u.ok and m.ok) or u.type != "underconstrained":
            continue
        still = {m.cls[tuple(int(z) for z in x.split(":")[2].split("."))] for x in m.errors() if x.startswith("E:UNUSED:") or x.startswith("E:STATE_NOT_INIT:")}
        if m.valid or not set(c["unknown"]) <= still:
            violation("C20 oracle: marking another variable rescues an unknown that is not marked (%s)" % m.type, "rescue_other",
                      {"unmarked": payload(c["group"]), "other_marked": payload(i)})
    # ---- emission correspondence + execution
    def job(i):
        f = fields(impl_raw[i])
        if "CC" not in f:
            return i, None, None
        h = bytes.fromhex(f.get("CH", "")).decode()
        cc = bytes.fromhex(f["CC"]).decode()
        return i, code_tokens(cc), run_generated(h, cc, ctx.workdir, "x%d" % i)
    t0 = time.time()
    with ThreadPoolExecutor(max_workers=vf.NCPU) as ex:
        results = list(ex.map(job, jobs))
    ctx.log("executed %d generated programs in %.0fs" % (len(jobs), time.time() - t0))
    for i, toks, rn in results:
        if toks is None:
            continue
        c = cases[i]
        a = ans[i]
        mf = fields(model_raw[i])
        for key in ("BI", "BC", "BR", "BV"):
            if key in mf and mf[key] != toks.get(key, ""):
                emission_mismatch += 1
                emission_idx.append((i, toks))
                if len(late) < 40:
                    late.append(("C20 correspondence: emission order of method %s differs (code %s, model %s)" % (key, toks.get(key), mf[key]),
                                 "emission", payload(i, {"code_tokens": toks})))
                    late_idx.append(i)
                break
        hist["executed"] += 1
        if not rn["ok"]:
            violation("C20 execution: generated code does not build/run: %s" % rn["error"][:200], "exec_failure", payload(i, {"dir": rn.get("dir")}))
            continue
        kept = []
        for it in a.f.get("X", "").split(";"):
            if it:
                v, ds, bits = it.split(":")
                kept.append((v, [x for x in ds.split("+") if x], bits))
        viol, known, st = check_execution(c["system"], a, kept, rn, base_bad.get(c["mi"]) or frozenset())
        hist["value_failures_also_without_marks"] += st.get("value_failures_also_without_marks", 0)
        hist["value_failures_in_mutually_dependent_nla_systems"] += st.get("value_failures_in_mutually_dependent_nla_systems", 0)
        hist["callbacks"] += st["callbacks"]
        hist["dependency_checks_at_runtime"] += st["dep_checks"]
        hist["value_checks"] += st["value_checks"]
        hist["nla_not_converged"] += st["nla_skipped"]
        for fid, text in known:
            if not ctx.known_finding(fid, text):
                violation("C20 execution: %s" % text, "callback_order", payload(i, {"finding": fid}))
        for kind, text in viol:
            violation("C20 execution (%s): %s" % (kind, text), "exec_" + kind.replace("-", "_"), payload(i, {"events": [(p, x) for p, x, _ in rn["events"]]}))
        # clean the directory of a clean case
        if not viol:
            try:
                for fn in os.listdir(rn["dir"]):
                    os.remove(os.path.join(rn["dir"], fn))
                os.rmdir(rn["dir"])
            except OSError:
                pass

    # ---- exhaustive search on the extracted model (evidence for the theorems that are not proved in general)
    ctx.cov["exhaustive_search"] = []
    for k, n in ([(3, 3)] if quick else [(4, 3), (3, 4)]):
        rc, out = vf.sh([mdl, "search", str(k), str(n)], timeout=3000)
        line = next((l for l in out.split("\n") if l.startswith("SEARCH classes")), "")
        ctx.cov["exhaustive_search"].append(line)
        ctx.log(line[:400])
        f = dict(x.split("=", 1) for x in re.sub(r"\[[^\]]*\]", "", line).split(" ") if "=" in x)
        bad = [name for name in ("externals_exact_bad", "placeholder_bad", "voi_only_changed", "independent_changed", "of_which_not_rescued")
               if int(f.get(name, "1")) != 0]
        if not line or bad:
            violation("C20 model: the extracted model refutes %s on a small system (a theorem or its stated sub-domain is wrong)" % bad,
                      "search", {"search": line})
    # open known findings with a repair that may or may not be in the tree yet: inside its class the implementation may
    # behave as the repaired model or EXACTLY as the model without that repair
    def marks_uninitialised_state(i):
        s_ = cases[i]["system"]
        inited, diffed = set(), set()
        for c_ in s_["comps"]:
            byname = {v["name"]: v["cls"] for v in c_["vars"]}
            for v in c_["vars"]:
                if v["init"] is not None:
                    inited.add(v["cls"])
            def dd(x):
                if x[0] == "D":
                    diffed.add(byname[x[2]])
                elif x[0] == "O":
                    dd(x[1]); dd(x[2])
            for q in c_["eqs"]:
                dd(q["lhs"]); dd(q["rhs"])
        cls_ = A.class_of(s_)
        mk = {cls_[tuple(int(z) for z in v.split("."))] for v, _ in local_marks(cases[i]["marks"])}
        return bool(mk & (diffed - inited))

    def has_nla_and_external(i):
        return any(x["type"] == "nla" for x in ans[i].eqs.values()) and any(v["type"] == "external" for v in ans[i].vars.values())
    alternates = [("nodep", "C20-nla-external-dependency", has_nla_and_external,
                   "an NLA equation does not depend on the external variable pruned from its unknowns"),
                  ("norescue", "C20-uninitialised-state-not-rescued", marks_uninitialised_state,
                   "a variable used in an ODE without initial value and marked as external is still reported as not initialised")]
    for mode, fid, in_class, what_ in alternates:
        if not (mismatch_idx or emission_idx):
            break
        idxs = [i for i in sorted(set(mismatch_idx) | {i for i, _ in emission_idx}) if in_class(i)]
        if not idxs:
            continue
        nd = dict(zip(idxs, run_sharded(mdl, [mode], [mdl_lines[i] for i in idxs], ctx.workdir, mode)))
        tok_of = dict(emission_idx)
        excused = set()
        for i in idxs:
            u = nd[i]
            uf = fields(u)
            same_analysis = strip_fields(u, ("BI", "BC", "BR", "BV", "ACY", "ORD")) == impl[i]
            same_emission = i not in tok_of or all(uf.get(k, "") == tok_of[i].get(k, "") for k in ("BI", "BC", "BR", "BV"))
            if same_analysis and same_emission and ctx.known_finding(fid, "%s: %s | %s" % (what_, mdl_lines[i][:80], marks_text(cases[i]["marks"]))):
                excused.add(i)
        if excused:
            hist["cases_behaving_as_the_code_without_a_prepared_repair"] = hist.get("cases_behaving_as_the_code_without_a_prepared_repair", 0) + len(excused)
            mismatch_idx = [i for i in mismatch_idx if i not in excused]
            emission_idx = [(i, tk) for i, tk in emission_idx if i not in excused]
            keep = [n for n, i in enumerate(late_idx) if i not in excused]
            late = [late[n] for n in keep]
            late_idx = [late_idx[n] for n in keep]
            mismatch = len(mismatch_idx)
            emission_mismatch = len(emission_idx)
    # a difference that is exactly the defect repaired by fixes/C20-voi-external.diff is named as such
    if mismatch_idx:
        unf = run_sharded(mdl, ["unfixed"], [mdl_lines[i] for i in mismatch_idx], ctx.workdir, "unfixed")
        unf = [strip_fields(l, ("BI", "BC", "BR", "BV", "ACY", "ORD")) for l in unf]
        nvoi = sum(1 for i, u in zip(mismatch_idx, unf) if impl[i] == u)
        ctx.log("%d of the %d differing analyses are exactly the model of the analyser WITHOUT fixes/C20-voi-external.diff and "
                "fixes/C20-nla-external-dependency.diff (defects C20-voi-marked-external, C20-nla-external-dependency)" % (nvoi, len(mismatch_idx)))
        hist["differences_explained_by_unrepaired_voi_defect"] = nvoi
        late = [(w + (" [= model of the unrepaired analyser]" if c.get("impl") in unf else ""), n, c) for w, n, c in late]
    if emission_idx:
        unf = run_sharded(mdl, ["unfixed"], [mdl_lines[i] for i, _ in emission_idx], ctx.workdir, "unfixed_emission")
        nsib = 0
        for (i, toks), u in zip(emission_idx, unf):
            uf = fields(u)
            if strip_fields(u, ("BI", "BC", "BR", "BV", "ACY", "ORD")) == impl[i] and all(uf.get(k, "") == toks.get(k, "") for k in ("BI", "BC", "BR", "BV")):
                nsib += 1
        ctx.log("%d of the %d differing emission orders are exactly those of the model of the code WITHOUT fixes/C20-voi-external.diff and "
                "fixes/C20-nla-sibling-dependencies.diff (defects C20-voi-marked-external: shifted indices; C20-nla-sibling-dependencies: the "
                "dependencies of NLA siblings are not generated before findRoot)" % (nsib, len(emission_idx)))
        hist["emission_differences_explained_by_the_unrepaired_defects"] = nsib
    for what, name, content in late:
        violation(what, name, content)
    if mismatch or emission_mismatch:
        ctx.log("correspondence: %d of %d analyses differ, %d emission orders differ" % (mismatch, len(cases), emission_mismatch))
    missing_roles = [r for r in ROLES if hist["roles_marked"][r] == 0]
    if missing_roles:
        ctx.notes.append("roles never marked in this run: %s" % missing_roles)
    ctx.cov["evaluations"] = len(cases) + len(systems)
    ctx.cov["distinct_nontrivial"] = len(distinct)
    ctx.cov["traces_validated_against_impl"] = len(cases)
    ctx.cov["rule"] = ("%d valid generated systems (gen/abstract_systems.py: constants, computed constants, algebraic equations, ODEs, single "
                       "non-isolated equations and NLA systems over 1-3 flat or encapsulated components) x up to %d markings each: subsets of <= 3 "
                       "variables (one singleton per role present: state, constant, computed constant, algebraic, NLA unknown, variable of "
                       "integration, non-primary member, variable of another model; %s), every mark with 0-4 attempted dependencies drawn from all "
                       "variables (itself, equivalents, foreign and repeated ones included), sometimes the same object added twice; plus the "
                       "normalised and a re-targeted marking, and two underconstrained variants per system with their three runs.  Every case goes "
                       "through Parser -> Analyser and the extracted model; up to %d are generated, compiled and run.  Non-trivial = at least one "
                       "mark on a variable of the model and >= 2 equations; distinct by abstract system text + marking" % (
                           n_models, per_model, "then random subsets" if quick else "then all subsets of size <= 2 and size-3 subsets of one "
                           "representative per class + a non-primary member + a foreign variable up to the cap, then random ones", n_exec_max))
    k = max(0, len(cases) // 3)
    if cases:
        ctx.cov["samples"] = [mdl_lines[0][:300], mdl_lines[k][:300], {"marks": marks_text(cases[k]["marks"]), "impl": impl[k][:600]}]
    ctx.cov["exhaustive"] = False
    ctx.cov["input_distribution"] = hist
    ctx.workdir = shared_workdir
    if nviol[0] == 0:
        shutil.rmtree(rundir, ignore_errors=True)
    ctx.log("roles marked %s" % hist["roles_marked"])
    ctx.log("result types %s; messages %s; executed %d, callbacks %d, runtime dependency checks %d, value checks %d" % (
        hist["marked_result_type"], hist["messages"], hist["executed"], hist["callbacks"], hist["dependency_checks_at_runtime"], hist["value_checks"]))


def replay(ctx, path):
    r = json.load(open(path))
    items = [r[k] for k in ("with", "normalised", "unmarked", "as_constant", "marked") if k in r] or [r]
    drv, mdl = drivers()
    for it in items:
        if "system" not in it:
            print(json.dumps(it, indent=1))
            continue
        s = it["system"]
        marks = [tuple(m) for m in it.get("marks", [])]
        cf = os.path.join(ctx.workdir, "replay.c.cases")
        mf = os.path.join(ctx.workdir, "replay.m.cases")
        open(cf, "w").write("%s g %s\n" % (cellml_hex(s), marks_text(marks)))
        open(mf, "w").write("%s | %s\n" % (A.to_model_line(s), marks_text(marks)))
        c = vf.sh([drv, cf])[1].strip()
        m = vf.sh([mdl, "analyse", mf])[1].strip()
        u = vf.sh([mdl, "unfixed", mf])[1].strip()
        print(cellml_text(s))
        print("marks :", marks_text(marks))
        print("impl  :", strip_fields(c, ("CH", "CC")))
        print("model :", m)
        print("model (code without fixes/C20-voi-external.diff):", strip_fields(u, ("BI", "BC", "BR", "BV", "ACY", "ORD")))
        f = fields(c)
        if "CC" in f:
            cc = bytes.fromhex(f["CC"]).decode()
            print("code  :", code_tokens(cc))
            a = Analysis(s, strip_fields(c, ("CH", "CC")))
            if a.valid and a.has_ext:
                rn = run_generated(bytes.fromhex(f["CH"]).decode(), cc, ctx.workdir, "replay")
                if rn["ok"]:
                    kept = []
                    for x in a.f.get("X", "").split(";"):
                        if x:
                            v, ds, bits = x.split(":")
                            kept.append((v, [z for z in ds.split("+") if z], bits))
                    viol, known, st = check_execution(s, a, kept, rn)
                    for p, idx, arr in rn["events"]:
                        print("callback %s index %d variables=%s" % (p, idx, arr["V"]))
                    print("execution:", viol, known, st)
                else:
                    print("execution failed:", rn["error"])
