"""C06 — flattening yields an import-free model with the same meaning.

proofs : Properties_C06.v (index-stack rebasing, equivalence re-creation, component de-clash, units transfer, the
         flattening loop, the write log) over coq/theories/FlattenDefs.v
tie    : the extracted model (ocaml/flatten/driver.ml) and Importer::flattenModel (harness/c06_driver.cpp) flatten the
         same models -- the model's input is exported by the C++ driver from the parsed and resolved object graph --
         and the canonical dumps of the flat models are compared exactly (names incl. de-clash suffixes, units
         renaming, cn units, equivalences with ids, order of units and components)
search : oracle on the implementation, independent of the model: the flat model has no imports, validates when all
         inputs validate, leaves the inputs unchanged; its component tree is the instantiated import hierarchy; every
         variable's units and every cn units denote what they denoted in their source file (python reduction to base
         units); the equivalences are those of the hierarchy; gen/matheval.py gives every variable the value it has in
         the hierarchy; for a sample the library's own analyser + generated C code are run (lib/coderun.py).
"""
import hashlib
import json
import math
import multiprocessing.pool
import os
import re
import shutil
import subprocess
import xml.etree.ElementTree as ET

import vf
import flatten_graphs as FG
import matheval

CELLML = "{http://www.cellml.org/cellml/2.0#}"
MATHML = "{http://www.w3.org/1998/Math/MathML}"
XLINK = "{http://www.w3.org/1999/xlink}"

KF_CAPTURE = "C06-units-name-capture"
KF_BASE = "C06-renamed-base-units"
KF_IDS = "C06-equivalence-ids-lost"
KF_UNRESOLVED = "C06-unresolved-import-below-placeholder"


# ------------------------------------------------------------------------------------------------ running the drivers

def fields(line):
    d = {}
    for f in line.split("\t"):
        if "=" in f:
            k, v = f.split("=", 1)
            d[k] = v
    if not d:
        d["RAW"] = line
    return d


def run_sharded(exe, lines, workdir, tag, nshards=12, extra=(), timeout=1500):
    """run `exe <file>` over the lines split into shards, in parallel; returns the output lines in order"""
    if not lines:
        return []
    nshards = max(1, min(nshards, len(lines)))
    size = (len(lines) + nshards - 1) // nshards
    jobs = []
    for k in range(nshards):
        part = lines[k * size:(k + 1) * size]
        if not part:
            continue
        p = os.path.join(workdir, "%s_%d.txt" % (tag, k))
        with open(p, "w") as f:
            f.write("".join(x + "\n" for x in part))
        jobs.append((p, len(part)))

    def one(job):
        p, n = job
        r = subprocess.run([exe, p] + list(extra), capture_output=True, text=True, timeout=timeout)
        out = r.stdout.split("\n")
        out = out[:n] + ["<missing>"] * (n - len(out[:n]))
        return [x if x != "" else "<missing>" for x in out]
    with multiprocessing.pool.ThreadPool(len(jobs)) as pool:
        res = pool.map(one, jobs)
    return [x for part in res for x in part]


# ------------------------------------------------------------------------------------------------ the flat model as printed

def parse_flat(text):
    """the printed flat model: units, component tree (encapsulation), variables, equations, connections, imports"""
    root = ET.fromstring(text.encode("utf-8"))
    flat = {"units": {}, "comps": {}, "tree": [], "conns": [], "imports": 0, "order": []}
    kids, has_parent = {}, set()
    for el in root:
        tag = el.tag
        if tag == CELLML + "import":
            flat["imports"] += 1
        elif tag == CELLML + "units":
            flat["units"][el.get("name")] = [(u.get("units"), u.get("prefix") or "", u.get("exponent") or "1", u.get("multiplier") or "1")
                                             for u in el if u.tag == CELLML + "unit"]
        elif tag == CELLML + "component":
            comp = {"name": el.get("name"), "vars": [], "eqs": []}
            for ch in el:
                if ch.tag == CELLML + "variable":
                    comp["vars"].append([ch.get("name"), ch.get("units"), ch.get("initial_value"), ch.get("interface") or ""])
                elif ch.tag == MATHML + "math":
                    for eqn in ch:
                        ex = matheval._parse_math(eqn)
                        comp["eqs"].append([ex[2][0], ex[2][1]])
            if comp["name"] in flat["comps"]:
                flat.setdefault("duplicate_components", []).append(comp["name"])
            flat["comps"][comp["name"]] = comp
            flat["order"].append(comp["name"])
        elif tag == CELLML + "connection":
            c1, c2, cid = el.get("component_1"), el.get("component_2"), el.get("id") or ""
            for mv in el:
                if mv.tag == CELLML + "map_variables":
                    flat["conns"].append((c1, mv.get("variable_1"), c2, mv.get("variable_2"), mv.get("id") or "", cid))
        elif tag == CELLML + "encapsulation":
            def walk(ref, parent):
                n = ref.get("component")
                if parent is not None:
                    kids.setdefault(parent, []).append(n)
                    has_parent.add(n)
                for ch in ref:
                    if ch.tag == CELLML + "component_ref":
                        walk(ch, n)
            for ref in el:
                if ref.tag == CELLML + "component_ref":
                    walk(ref, None)
    flat["kids"] = kids
    flat["tops"] = [n for n in flat["order"] if n not in has_parent]
    return flat


def flat_units_info(flat, name, depth=0):
    if depth > 40:
        return None
    if name in FG.STD_DIMS:
        return FG.UnitsInfo(FG.STD_SCALE.get(name, 0), FG.STD_DIMS[name])
    if name not in flat["units"]:
        return None
    defs = flat["units"][name]
    if not defs:
        return FG.UnitsInfo(0, {name: 1})
    scale, dims = 0, {}
    for ref, pre, ex, mu in defs:
        d = flat_units_info(flat, ref, depth + 1)
        if d is None:
            return None
        try:
            e = int(ex)
            m = round(math.log10(float(mu)))
            if abs(10.0 ** m - float(mu)) > 1e-9 * float(mu):
                return None
        except ValueError:
            return None
        scale += m + (FG.prefix_log(pre) + d.scale) * e
        for k, v in d.dims.items():
            dims[k] = dims.get(k, 0) + v * e
    return FG.UnitsInfo(scale, dims)


def source_units_info(files, fn, name, depth=0):
    """like FG.denote but user-defined base units are qualified by the file that defines them"""
    if depth > 40:
        return None
    if name in FG.STD_DIMS:
        return FG.UnitsInfo(FG.STD_SCALE.get(name, 0), FG.STD_DIMS[name])
    for u in files[fn]["units"]:
        if u["name"] == name:
            if u["imp"]:
                return source_units_info(files, u["imp"][0], u["imp"][1], depth + 1)
            if not u["defs"]:
                return FG.UnitsInfo(0, {fn + ":" + name: 1})
            scale, dims = 0, {}
            for ref, pre, ex, mu in u["defs"]:
                d = source_units_info(files, fn, ref, depth + 1)
                if d is None:
                    return None
                scale += mu + (FG.prefix_log(pre) + d.scale) * ex
                for k, v in d.dims.items():
                    dims[k] = dims.get(k, 0) + v * ex
            return FG.UnitsInfo(scale, dims)
    return None


class BaseMap:
    """consistent correspondence between the user-defined base units of the source files and those of the flat model"""

    def __init__(self):
        self.fwd, self.bwd = {}, {}

    def same(self, src, flat):
        """src: UnitsInfo with file-qualified base units, flat: UnitsInfo of the flat model"""
        if src is None or flat is None:
            return False
        if src.scale != flat.scale:
            return False
        s = {k: v for k, v in src.dims.items()}
        f = {k: v for k, v in flat.dims.items()}
        # standard bases must agree literally
        for k in list(s):
            if ":" not in k:
                if f.get(k) != s[k]:
                    return False
                del f[k]
                del s[k]
        if any(k in FG.STD_DIMS for k in f):
            return False
        # user-defined bases: through the map (extended greedily when there is exactly one candidate)
        for k, v in s.items():
            if k in self.fwd:
                if f.get(self.fwd[k]) != v:
                    return False
                del f[self.fwd[k]]
            else:
                cand = [n for n, e in f.items() if e == v and n not in self.bwd]
                if len(cand) != 1:
                    return False
                self.fwd[k] = cand[0]
                self.bwd[cand[0]] = k
                del f[cand[0]]
        return not f


def expr_shape(e, cns, cis):
    """structure of an expression with cn units and ci names pulled out (both in document order)"""
    t = e[0]
    if t == "cn":
        cns.append(e[2])
        return ("cn", matheval.number(e[1]))
    if t == "ci":
        cis.append(e[1])
        return ("ci",)
    if t == "ap":
        return ("ap", e[1], tuple(expr_shape(a, cns, cis) for a in e[2]))
    return tuple(e)


def check_semantics(files, flat):
    """the property's own oracle on the printed flat model.  Returns a list of (kind, text); empty = fine.
    kinds: structure, names, units, cn, equivalence, ids"""
    bad = []
    tops, conns = FG.instantiate(files)
    if flat["imports"]:
        bad.append(("imports", "the printed flat model has %d import elements" % flat["imports"]))
    if flat.get("duplicate_components"):
        bad.append(("names", "component names occur twice: %s" % flat["duplicate_components"]))
    if len(tops) != len(flat["tops"]):
        bad.append(("structure", "%d top-level components, the hierarchy has %d" % (len(flat["tops"]), len(tops))))
        return bad, {}
    bm = BaseMap()
    name_of = {}

    def walk(node, fname_):
        name_of[node.path] = fname_
        fc = flat["comps"].get(fname_)
        if fc is None:
            bad.append(("structure", "component %s of the encapsulation is not defined" % fname_))
            return
        src = node.comp
        if [v[0] for v in fc["vars"]] != [v[0] for v in src["vars"]]:
            bad.append(("structure", "%s: variables %s, source has %s" % (fname_, [v[0] for v in fc["vars"]], [v[0] for v in src["vars"]])))
            return
        for fv, sv in zip(fc["vars"], src["vars"]):
            if (fv[2] or None) != (sv[2] or None) or (fv[3] or "") != (sv[3] or ""):
                bad.append(("structure", "%s.%s: initial value / interface changed" % (fname_, fv[0])))
            if not bm.same(source_units_info(files, node.fn, sv[1]), flat_units_info(flat, fv[1])):
                bad.append(("units", "%s.%s: units %s of %s became %s, which does not denote the same units" % (fname_, fv[0], sv[1], node.fn, fv[1])))
        if len(fc["eqs"]) != len(src["math"]):
            bad.append(("structure", "%s: %d equations, source has %d" % (fname_, len(fc["eqs"]), len(src["math"]))))
        else:
            for k, (fe, se) in enumerate(zip(fc["eqs"], src["math"])):
                fcn, fci, scn, sci = [], [], [], []
                fs = (expr_shape(fe[0], fcn, fci), expr_shape(fe[1], fcn, fci))
                ss = (expr_shape(tuple(se[0]), scn, sci), expr_shape(tuple(se[1]), scn, sci))
                if fs != ss or fci != sci or len(fcn) != len(scn):
                    bad.append(("structure", "%s: equation %d changed" % (fname_, k)))
                    continue
                for fu, su in zip(fcn, scn):
                    if not bm.same(source_units_info(files, node.fn, su), flat_units_info(flat, fu)):
                        bad.append(("cn", "%s: equation %d: cn units %s of %s became %s, which does not denote the same units" % (fname_, k, su, node.fn, fu)))
        fk = flat["kids"].get(fname_, [])
        if len(fk) != len(node.kids):
            bad.append(("structure", "%s has %d encapsulated children, the hierarchy has %d" % (fname_, len(fk), len(node.kids))))
            return
        for kn, kname in zip(node.kids, fk):
            walk(kn, kname)
    for node, fname_ in zip(tops, flat["tops"]):
        walk(node, fname_)
    if len(set(flat["order"])) != len(list(FG.all_insts(tops))):
        bad.append(("structure", "%d components, the hierarchy has %d instances" % (len(set(flat["order"])), len(list(FG.all_insts(tops))))))
    # equivalences
    if not [b for b in bad if b[0] == "structure"]:
        want = {}
        for a, b, mid, cid in conns:
            ka = (name_of[a[0]], a[1])
            kb = (name_of[b[0]], b[1])
            want[frozenset([ka, kb])] = (mid, cid)
        got = {}
        for c1, v1, c2, v2, mid, cid in flat["conns"]:
            got[frozenset([(c1, v1), (c2, v2)])] = (mid, cid)
        for k in want:
            if k not in got:
                bad.append(("equivalence", "connection %s is missing" % sorted(k)))
        for k in got:
            if k not in want:
                bad.append(("equivalence", "connection %s is not in the hierarchy" % sorted(k)))
        for k in want:
            if k in got and want[k] != got[k]:
                bad.append(("ids", "connection %s: mapping/connection ids %s became %s" % (sorted(k), want[k], got[k])))
    return bad, name_of


def numeric_compare(files, flat_text, name_of):
    """values of all variables: the printed flat model against the instantiated hierarchy, both through gen/matheval.py"""
    desc, tops, conns = FG.reference_desc(files)
    ref = matheval.evaluate(desc)
    got = matheval.evaluate(matheval.parse_cellml(flat_text))
    bad, n = [], 0
    for node in FG.all_insts(tops):
        iname = "i" + "_".join(str(i) for i in node.path)
        fname_ = name_of.get(node.path)
        for v in node.comp["vars"]:
            try:
                want = ref.var_value(iname, v[0])
            except Exception:
                want = None
            try:
                have = got.var_value(fname_, v[0])
            except Exception:
                have = None
            if want is None and have is None:
                continue
            n += 1
            if want is None or have is None or not close(want, have):
                bad.append("%s.%s (%s.%s): hierarchy %r, flat model %r" % (fname_, v[0], node.fn, node.comp["name"], want, have))
    return bad, n, ref


def close(a, b, rel=1e-9, abs_=1e-12):
    if isinstance(a, float) and isinstance(b, float) and (math.isnan(a) or math.isnan(b)):
        return math.isnan(a) and math.isnan(b)
    return abs(a - b) <= max(abs_, rel * max(abs(a), abs(b)))


# ------------------------------------------------------------------------------------------------ case classes (matchers)

def closure_files(files):
    seen, todo = [], [FG.ORIGIN]
    while todo:
        fn = todo.pop()
        if fn in seen or fn not in files:
            continue
        seen.append(fn)
        for u in files[fn]["units"]:
            if u["imp"]:
                todo.append(u["imp"][0])
        for c in FG.all_comps(files[fn]["comps"]):
            if c["imp"]:
                todo.append(c["imp"][0])
    return seen


def case_facts(files):
    """predicates over the CASE used by the known-finding matchers"""
    cl = closure_files(files)
    meanings = {}
    names = set()
    base_names = {}
    for fn in cl:
        for u in files[fn]["units"]:
            names.add(u["name"])
            d = FG.denote(files, fn, u["name"])
            meanings.setdefault(u["name"], set()).add(d.key() if d is not None else None)
            if not u["imp"] and not u["defs"]:
                base_names.setdefault(u["name"], set()).add(fn)
    clash = sorted(n for n, ms in meanings.items() if len(ms) > 1)
    suffixed = sorted(n for n in names if re.match(r"^(.*)_\d+$", n) and re.match(r"^(.*)_\d+$", n).group(1) in names)
    # a user-defined base unit whose name is also used, in another file of the closure, for a units
    base_clash = sorted(n for n, fs in base_names.items()
                        if any(n == u["name"] for fn in cl if fn not in fs for u in files[fn]["units"]) or len(fs) > 1)
    # ... or that is imported under another name (the copy is then a base unit of that other name)
    def resolve(fn, name, depth=0):
        for u in files.get(fn, {"units": []})["units"]:
            if u["name"] == name:
                if u["imp"] and depth < 20:
                    return resolve(u["imp"][0], u["imp"][1], depth + 1)
                return u
        return None
    for fn in cl:
        for u in files[fn]["units"]:
            if u["imp"]:
                t = resolve(u["imp"][0], u["imp"][1])
                if t is not None and not t["imp"] and not t["defs"] and t["name"] not in FG.STANDARD_UNITS and t["name"] != u["name"]:
                    base_clash = sorted(set(base_clash) | {t["name"]})
    # ... and the name under which a units is imported is the name of one of its own dependencies in the file it comes from
    # (the copy, renamed, then refers to itself: C07's original example of the capture)
    def deps(fn, name, acc, depth=0):
        for u in files.get(fn, {"units": []})["units"]:
            if u["name"] == name and not u["imp"] and depth < 20:
                for d in u["defs"]:
                    if d[0] not in FG.STANDARD_UNITS and d[0] not in acc:
                        acc.add(d[0])
                        deps(fn, d[0], acc, depth + 1)
        return acc
    for fn in cl:
        for u in files[fn]["units"]:
            if u["imp"] and u["name"] in deps(u["imp"][0], u["imp"][1], set()):
                clash = sorted(set(clash) | {u["name"]})
    ids_on_imported = False
    below_placeholder = False
    for fn in cl:
        m = files[fn]
        imported_names = {c["name"] for c in FG.all_comps(m["comps"]) if c["imp"]}
        for a, va, b, vb, mid in m["conns"]:
            cid = m["connids"].get(a + "|" + b, "")
            if (mid or cid) and (fn != FG.ORIGIN or a in imported_names or b in imported_names):
                ids_on_imported = True
        if fn != FG.ORIGIN:
            for c in FG.all_comps(m["comps"]):
                if c["imp"] and any(k["imp"] or any(x["imp"] for x in FG.all_comps(k["kids"])) for k in c["kids"]):
                    below_placeholder = True
    multi_math = any(len(c.get("mblocks") or []) >= 2 for fn in cl for c in FG.all_comps(files[fn]["comps"]))
    levels = import_levels(files)
    return {"units_name_clash": clash, "suffixed_units_names": suffixed, "base_units_clash": base_clash,
            "ids_on_imported": ids_on_imported, "import_below_placeholder": below_placeholder, "import_levels": levels,
            "several_math_blocks": multi_math,
            "files": len(cl)}


def import_levels(files):
    """length of the longest chain of imports that flattening follows from the origin"""
    memo = {}

    def units_depth(fn, name, d=0):
        if d > 20:
            return 20
        for u in files[fn]["units"]:
            if u["name"] == name:
                if u["imp"]:
                    return 1 + units_depth(u["imp"][0], u["imp"][1], d + 1)
                return max([0] + [units_depth(fn, r[0], d + 1) for r in u["defs"]])
        return 0

    def comp_depth(fn, c, d=0):
        if d > 20:
            return 20
        own = 0
        if c["imp"]:
            tgt = FG.find_comp(files[c["imp"][0]], c["imp"][1])
            own = 1 + (comp_depth(c["imp"][0], tgt, d + 1) if tgt else 0)
        else:
            for v in c["vars"]:
                own = max(own, units_depth(fn, v[1]))
            for un in FG.math_cns(c["math"]):
                own = max(own, units_depth(fn, un))
        return max([own] + [comp_depth(fn, k, d + 1) for k in c["kids"]])
    m = files[FG.ORIGIN]
    return max([0] + [units_depth(FG.ORIGIN, u["name"]) for u in m["units"]] + [comp_depth(FG.ORIGIN, c) for c in m["comps"]])


# ------------------------------------------------------------------------------------------------ the check

def build_tools(ctx):
    build = vf.build_repo("plain")
    drv = vf.compile_driver(build, os.path.join(vf.ROOT, "harness/c06_driver.cpp"))
    mdl = vf.ocaml_driver("flatten")
    return build, drv, mdl


def make_cases(ctx, n_random):
    cases = []     # (name, files)
    for name, files in FG.hand_cases().items():
        cases.append(("hand_" + name, FG.strip_private(files)))
    cdir = os.path.join(vf.ROOT, "corpus", "C06")
    if os.path.isdir(cdir):
        for f in sorted(os.listdir(cdir)):
            if f.endswith(".json"):
                cases.append(("corpus_" + f[:-5], json.load(open(os.path.join(cdir, f)))["files"]))
    for i in range(n_random):
        sub = ctx.rng.randrange(1 << 30)
        import random
        files = FG.random_graph(random.Random(sub))
        cases.append(("rand_%d_%d" % (i, sub), FG.strip_private(files)))
    return cases


def run_cases(ctx, drv, mdl, cases, tag, fx="cur"):
    """write the files, run both drivers; returns list of dicts(name, files, dir, cpp, ml)"""
    root = os.path.join(ctx.workdir, tag)
    shutil.rmtree(root, ignore_errors=True)
    os.makedirs(root)
    recs = []
    for name, files in cases:
        d = os.path.join(root, name)
        FG.write_files(files, d)
        recs.append({"name": name, "files": files, "dir": d})
    out = run_sharded(drv, ["%s %s" % (r["dir"], FG.ORIGIN) for r in recs], root, "cpp")
    for r, l in zip(recs, out):
        r["cpp"] = fields(l)
    # a time-out can be the machine's (16 cores shared with other checks): such cases are run again, alone, before they count
    for attempt in range(2):
        again = [r for r in recs if "RAW" in r["cpp"] or r["cpp"].get("F") == "TIMEOUT"]
        if not again:
            break
        out2 = run_sharded(drv, ["%s %s" % (r["dir"], FG.ORIGIN) for r in again], root, "cpp_retry%d" % attempt, nshards=2)
        for r, l in zip(again, out2):
            r["cpp"] = fields(l)
            r["retried"] = attempt + 1
    mo = run_sharded(mdl, ["%s %s" % (fx, r["cpp"].get("X", "")) for r in recs], root, "ml")
    for r, l in zip(recs, mo):
        r["ml"] = fields(l)
    return recs


def cpp_outcome(c):
    f = c.get("F")
    if f is None:
        return c.get("RAW", "<missing>")
    return f


def judge(ctx, r, stats, mdl):
    """one case: correspondence + oracle.  Returns list of (severity, id-or-None, text)"""
    c, m, files = r["cpp"], r["ml"], r["files"]
    out = []
    facts = case_facts(files)
    r["facts"] = facts
    if "RAW" in c or "X" not in c:
        return [("violation", None, "the driver died before flattening: %s" % c.get("RAW", c))]
    if c.get("P") != "0":
        stats["generator_invalid"] += 1
        return []
    inputs_valid = set(c.get("V", "x").split(",")) == {"0"}
    if c.get("O") != m.get("O"):
        return [("violation", None, "the extracted model was not given what the library holds (export / echo differ): %s"
                 % (m.get("RAW", "")[:200]))]
    F = cpp_outcome(c)
    md = m.get("D", m.get("RAW", "<missing>"))
    if c.get("R") != "1":
        stats["unresolved"] += 1
        return []
    if F == "null":
        stats["refused"] += 1
        r["refused"] = c.get("FI", "")
        return []
    stats["flattened_or_died"] += 1
    # ---------------- crashes / hangs of flattening proper
    if F != "model":
        died = F.startswith("CRASH") or F.startswith("TIMEOUT") or F.startswith("THROW")
        agrees = (md in ("FCRASH", "FFUEL"))
        if facts["import_below_placeholder"] and md == "FCRASH" and ctx.known_finding(
                KF_UNRESOLVED, "%s: flattenModel %s (resolveImports returned true, the pre-checks passed)" % (r["name"], F)):
            stats["kf"] += 1
            return []
        if (facts["units_name_clash"] or facts["suffixed_units_names"] or facts["base_units_clash"]) and md in ("FFUEL", "FCRASH") and ctx.known_finding(
                KF_CAPTURE, "%s: flattenModel %s (%s)" % (r["name"], F, "transferUnitsRenamingIfRequired recurses without end over a units cycle that the renaming closed in the imported model's clone" if md == "FFUEL"
                                                         else "a captured name brought an unresolved imported units into the flat model")):
            stats["kf"] += 1
            return []
        return [("violation", None, "flattenModel %s after resolveImports returned true and the pre-checks passed (model: %s)" % (F, md))]
    # ---------------- correspondence
    corr = (c.get("D") == md)
    if not corr:
        out.append(("violation", None, "the flat model differs from the model's prediction"))
    if m.get("W") == "0":
        out.append(("violation", None, "the model's write log names an input object"))
    # ---------------- oracle on the implementation
    problems = []
    if c.get("H") != "0":
        problems.append(("imports", "flat->hasImports() is true"))
    if c.get("U") != "ok":
        problems.append(("inputs", "an input changed: %s" % c.get("U")))
    try:
        text = open(os.path.join(r["dir"], "flat.cellml")).read()
        flat = parse_flat(text)
        sem, name_of = check_semantics(files, flat)
        problems += sem
        r["flat"] = flat
        r["name_of"] = name_of
    except Exception as e:     # noqa
        text, name_of = None, {}
        problems.append(("structure", "the printed flat model cannot be read: %r" % (e,)))
    if inputs_valid:
        stats["inputs_valid"] += 1
        if c.get("FV") != "0":
            problems.append(("valid", "the flat model has %s validator issues although every input model validates" % c.get("FV")))
        if c.get("FU") != "0":
            problems.append(("valid", "%s variables of the flat model use units that are not units of the flat model" % c.get("FU")))
    if text is not None and not [p for p in problems if p[0] == "structure"]:
        try:
            nb, n, _ = numeric_compare(files, text, name_of)
            stats["values_compared"] += n
            for b in nb[:3]:
                problems.append(("value", b))
        except Exception as e:     # noqa
            problems.append(("value", "evaluation failed: %r" % (e,)))
    r["problems"] = problems
    for kind in sorted({k for k, _ in problems}):
        stats["cases_with_" + kind] = stats.get("cases_with_" + kind, 0) + 1
    # attribute the problems
    rest = []
    for kind, text_ in problems:
        if kind == "ids" and facts["ids_on_imported"] and corr and ctx.known_finding(KF_IDS, "%s: %s" % (r["name"], text_)):
            stats["kf"] += 1
            continue
        if kind in ("units", "cn", "valid", "value") and corr:
            if facts["base_units_clash"] and ctx.known_finding(KF_BASE, "%s: %s" % (r["name"], text_)):
                stats["kf"] += 1
                continue
            if (facts["units_name_clash"] or facts["suffixed_units_names"]) and ctx.known_finding(KF_CAPTURE, "%s: %s" % (r["name"], text_)):
                stats["kf"] += 1
                continue
        rest.append((kind, text_))
    for kind, text_ in rest[:4]:
        out.append(("violation", None, "%s: %s" % (kind, text_)))
    if not problems:
        stats["oracle_ok"] += 1
    return out


def nontrivial(r):
    """>= 1 rename (a component or units name of the flat model that no source file has in that role) or >= 2 import levels"""
    facts = r.get("facts") or {}
    if facts.get("import_levels", 0) >= 2:
        return True
    flat = r.get("flat")
    if not flat:
        return False
    src_comp = {c["name"] for m in r["files"].values() for c in FG.all_comps(m["comps"])}
    src_units = {u["name"] for m in r["files"].values() for u in m["units"]}
    return any(n not in src_comp for n in flat["order"]) or any(n not in src_units for n in flat["units"])


def run_generated_code(ctx, build, recs, limit):
    """the library's own analyser + generated C code on the flat model, against the hierarchy's values"""
    import coderun
    import c03_models
    cdrv = vf.compile_driver(build, os.path.join(vf.ROOT, "harness/c03_model_driver.cpp"))
    picked = [r for r in recs if r.get("problems") == [] and r.get("name_of")][:limit]
    if not picked:
        return 0, 0
    work = os.path.join(ctx.workdir, "code")
    shutil.rmtree(work, ignore_errors=True)
    os.makedirs(work)
    paths = []
    for i, r in enumerate(picked):
        p = os.path.join(work, "m%d.cellml" % i)
        shutil.copy(os.path.join(r["dir"], "flat.cellml"), p)
        paths.append(p)
    infos = c03_models.run_pipeline(cdrv, paths, work, "c06")
    ran, compared = 0, 0
    for i, (r, p, info) in enumerate(zip(picked, paths, infos)):
        line = str(info.get("line", ""))
        if not info.get("ok"):
            # the analyser refuses models that are not fully determined; the generator avoids them, count only
            ctx.notes.append("generated-code run skipped for %s: %s" % (r["name"], line[:160]))
            continue
        desc, tops, conns = FG.reference_desc(r["files"])
        ref = matheval.evaluate(desc)
        inv = {v: k for k, v in r["name_of"].items()}
        res = coderun.run_c(open(p + ".c").read(), open(p + ".h").read(), os.path.join(work, "run%d" % i), "m%d" % i)
        if not res.get("ok"):
            ctx.violation("the code generated for the flat model of %s does not run: %s" % (r["name"], str(res.get("error"))[:200]),
                          "c06_code_%s.json" % r["name"], {"case": r["files"], "line": line})
            continue
        ran += 1
        for rec in info["states"] + info["variables"]:
            comp, var = rec["var"]
            if comp not in inv:
                continue
            iname = "i" + "_".join(str(k) for k in inv[comp])
            try:
                want = ref.var_value(iname, var)
            except Exception:
                continue
            try:
                have = res["phases"]["vars"]["states" if rec["type"] == "state" else "variables"][rec["index"]]
            except (KeyError, IndexError):
                continue
            compared += 1
            if not close(want, have, 1e-9, 1e-12):
                ctx.violation("generated code of the flat model of %s computes %s.%s = %r, the hierarchy gives %r" % (r["name"], comp, var, have, want),
                              "c06_code_%s.json" % r["name"], {"case": r["name"], "files": r["files"], "variable": [comp, var], "expected": want, "got": have})
                break
    return ran, compared


def run(ctx):
    ctx.proofs()
    build, drv, mdl = build_tools(ctx)
    n_random = 150 if ctx.quick() else 4000
    n_random = int(os.environ.get("C06_N", n_random))
    cases = make_cases(ctx, n_random)
    ctx.log("cases: %d (%d hand/corpus + %d random)" % (len(cases), len(cases) - n_random, n_random))
    stats = {k: 0 for k in ["generator_invalid", "unresolved", "refused", "flattened_or_died", "inputs_valid", "oracle_ok", "kf", "values_compared"]}
    recs = run_cases(ctx, drv, mdl, cases, "run")
    nviol = 0
    seen, nontriv = set(), 0
    verdicts = []
    hist = {"files": {}, "import_levels": {}, "outcome": {}, "features": {}}
    for r in recs:
        res = judge(ctx, r, stats, mdl)
        facts = r.get("facts") or {}
        key = hashlib.sha256(json.dumps(r["files"], sort_keys=True).encode()).hexdigest()
        if key not in seen:
            seen.add(key)
            if nontrivial(r) and cpp_outcome(r["cpp"]) == "model":
                nontriv += 1
        hist["files"][facts.get("files")] = hist["files"].get(facts.get("files"), 0) + 1
        hist["import_levels"][facts.get("import_levels")] = hist["import_levels"].get(facts.get("import_levels"), 0) + 1
        oc = cpp_outcome(r["cpp"])
        hist["outcome"][oc] = hist["outcome"].get(oc, 0) + 1
        for f in ("units_name_clash", "suffixed_units_names", "base_units_clash", "ids_on_imported", "import_below_placeholder", "several_math_blocks"):
            if facts.get(f):
                hist["features"][f] = hist["features"].get(f, 0) + 1
        if res:
            verdicts.append((r, res))
    # cases that fail: is the implementation the code as it was before the C06 fix commits (fixes/C06-*.diff)?
    if verdicts:
        root = os.path.join(ctx.workdir, "run")
        old = run_sharded(mdl, ["00000000 %s" % r["cpp"].get("X", "") for r, _ in verdicts], root, "ml_unfixed")
        for (r, res), l in zip(verdicts, old):
            um = fields(l)
            F = cpp_outcome(r["cpp"])
            ud = um.get("D", "")
            if (F == "model" and ud == r["cpp"].get("D")) or (F != "model" and ud in ("FCRASH", "FFUEL", "FUNMODELLED")):
                r["unfixed_note"] = ("the implementation behaves as the model of the code BEFORE the C06 fix commits "
                                     "(fixes/C06-*.diff are not in this tree)")
    for r, res in verdicts:
        facts = r.get("facts") or {}
        for sev, fid, text in res:
            if sev == "violation" and nviol < 8:
                nviol += 1
                if r.get("unfixed_note"):
                    text += " [" + r["unfixed_note"] + "]"
                ctx.violation("%s: %s" % (r["name"], text), "c06_%s.json" % r["name"],
                              {"case": r["name"], "files": r["files"], "what": text, "facts": facts,
                               "implementation": {k: v for k, v in r["cpp"].items() if k not in ("X", "O")},
                               "model": {k: v for k, v in r["ml"].items() if k != "O"},
                               "problems": r.get("problems"), "replay": "bin/check C06 --replay <this file>"})
    # the pre-checks must not refuse most of what the generator builds (it aims at resolvable graphs)
    total = len(recs)
    if total and stats["flattened_or_died"] < 0.6 * total:
        ctx.violation("only %d of %d generated graphs were flattened (unresolved %d, refused %d, invalid %d): the generator and the "
                      "importer no longer agree on what is resolvable" % (stats["flattened_or_died"], total, stats["unresolved"],
                                                                          stats["refused"], stats["generator_invalid"]),
                      "c06_generator.json", {"stats": stats}, no_input=True)
    try:
        ran, compared = run_generated_code(ctx, build, recs, 12 if ctx.quick() else 60)
    except Exception as e:     # noqa
        ran, compared = 0, 0
        ctx.notes.append("generated-code stage not run: %r" % (e,))
    ctx.cov["evaluations"] = total
    ctx.cov["distinct_nontrivial"] = nontriv
    ctx.cov["rule"] = ("distinct graph (hash of the abstract files) that flattenModel turned into a model and that has >= 1 rename (a component or "
                       "units name in the flat model that no source file uses) or >= 2 import levels")
    ctx.cov["input_distribution"] = {k: {str(a): b for a, b in sorted(v.items(), key=lambda x: str(x[0]))} for k, v in hist.items()}
    ctx.cov["stats"] = dict(stats, generated_code_runs=ran, generated_code_values=compared)
    ctx.cov["samples"] = [json.dumps(r["files"], sort_keys=True)[:600] for r in recs[:2]]
    ctx.assumptions += [
        "the model's input is the object graph exported by harness/c06_driver.cpp after Parser + resolveImports (glue trusted; re-checked by the echo comparison)",
        "flattenModel's pre-checks (hasImportIssues, isDefined) are C07's model; C06 models the code after them and is compared only when they pass",
        "Units::equivalent is the C08 model (UnitsDefs.equivalent): exponents rational, multipliers powers of ten",
        "connection ids are the same for all variable pairs of one pair of components (true of every parsed model)",
        "numerical equivalence is established by evaluation (gen/matheval.py, and the analyser + generated C code for a sample), not by theorem",
    ]
    ctx.log("stats %s" % stats)


def replay(ctx, path):
    data = json.load(open(path))
    build, drv, mdl = build_tools(ctx)
    recs = run_cases(ctx, drv, mdl, [(data.get("case", "replay"), data["files"])], "replay")
    r = recs[0]
    stats = {k: 0 for k in ["generator_invalid", "unresolved", "refused", "flattened_or_died", "inputs_valid", "oracle_ok", "kf", "values_compared"]}
    res = judge(ctx, r, stats, mdl)
    for fn in sorted(r["files"]):
        print("----", fn)
        print(FG.render_model(r["files"][fn]))
    print("implementation:", {k: v for k, v in r["cpp"].items() if k not in ("X", "O")})
    print("model         :", {k: v for k, v in r["ml"].items() if k != "O"})
    print("oracle        :", r.get("problems"))
    print("verdict       :", res or "ok")
    for sev, fid, text in res:
        ctx.violation("%s: %s" % (r["name"], text), "c06_replay.json", {"files": r["files"], "what": text})
