(* OCaml side of the C04 correspondence.  Glue only: parsing of the case format (gen/valid_gen.py: to_tokens) into the
   Coq values, printing of the issue multiset.  All property logic is the extracted ValidDefs.validate.

   driver run <cases> [fixed|unfixed|<4 bits: reset_set math_qual isrc_once name_pairs>] [early|noearly]
                                        (defaults: ValidDefs.current_fixes, ValidDefs.current_early)
                                        one line per world:  "<rule int>*<count> ..." sorted by rule int (ints from the
                                        regenerated ReferenceRule enum; a pseudo rule prints as its name), "-" when empty
   driver rules                         "<int> <name>" for every rule the model can cite
   driver xmlname <hexfile>             one line per hex string: is_xml_name is_ident
   driver numdfa <hexfile>              one line per hex string: real_dfa int_dfa (NumDefs, proved equal to the C16 grammar) *)
open Valid_model

let explode s = List.init (String.length s) (String.get s)
let implode l = String.of_seq (List.to_seq l)
let hexdecode h =
  if h = "-" then "" else
  let n = String.length h / 2 in
  String.init n (fun i -> Char.chr (int_of_string ("0x" ^ String.sub h (2 * i) 2)))

let nat_of_int n = let rec go k acc = if k <= 0 then acc else go (k - 1) (S acc) in go n O
let rec int_of_nat = function O -> 0 | S n -> 1 + int_of_nat n
let rec pos_of_int n = if n <= 1 then XH else if n land 1 = 0 then XO (pos_of_int (n / 2)) else XI (pos_of_int (n / 2))
let z_of_int n = if n = 0 then Z0 else if n > 0 then Zpos (pos_of_int n) else Zneg (pos_of_int (-n))
let q_of n d = { qnum = z_of_int n; qden = pos_of_int d }

let toks = ref [||]
let pos = ref 0
let nxt () = let t = !toks.(!pos) in incr pos; t
let str () = explode (hexdecode (nxt ()))
let int () = int_of_string (nxt ())
let nat () = nat_of_int (int ())
let many f = let n = int () in List.init n (fun _ -> f ())

let rec xml () =
  match nxt () with
  | "T" -> Text (str ())
  | "C" -> Comment (str ())
  | "E" ->
    let ns = str () in
    let name = str () in
    let attrs = many (fun () -> let a = str () in let b = str () in let c = str () in ((a, b), c)) in
    let kids = many xml in
    Elem (ns, name, attrs, kids)
  | t -> failwith ("bad xml token " ^ t)

let imp () =
  match nxt () with
  | "0" -> None
  | _ ->
    let tag = nat () in
    let id = str () in
    let url = str () in
    let ok = nxt () = "1" in
    let m = int () in
    let r = str () in
    Some ({ is_tag = tag; is_id = id; is_url = url; is_url_ok = ok; is_model = (if m < 0 then None else Some (nat_of_int m)) }, r)

let item () =
  let r = str () in
  let p = str () in
  let en = int () in let ed = int () in
  let mn = int () in let md = int () in
  let id = str () in
  { ui_ref = r; ui_prefix = p; ui_exp = q_of en ed; ui_lmult = q_of mn md; ui_id = id }

let units () =
  (match nxt () with "U" -> () | t -> failwith ("expected U, got " ^ t));
  let name = str () in
  let id = str () in
  let i = imp () in
  let items = many item in
  { u_name = name; u_id = id; u_imp = i; u_items = items }

let var () =
  let tag = nat () in
  let name = str () in
  let id = str () in
  let has = nxt () = "1" in
  let un = str () in
  let iface = str () in
  let init = str () in
  let eqs = many (fun () -> let t = nat () in let a = str () in let b = str () in { e_to = t; e_map_id = a; e_conn_id = b }) in
  { v_tag = tag; v_name = name; v_id = id; v_units = (if has then Some un else None); v_iface = iface; v_init = init; v_eqs = eqs }

let opt_int () = let has = nxt () = "1" in let v = int () in if has then Some v else None

let reset () =
  let id = str () in
  let order = opt_int () in
  let v = opt_int () in
  let tv = opt_int () in
  let tvd = many xml in
  let tvid = str () in
  let rvd = many xml in
  let rvid = str () in
  { r_id = id; r_order = (match order with Some o -> Some (z_of_int o) | None -> None);
    r_var = (match v with Some t -> Some (nat_of_int t) | None -> None);
    r_tvar = (match tv with Some t -> Some (nat_of_int t) | None -> None);
    r_tv = tvd; r_tv_id = tvid; r_rv = rvd; r_rv_id = rvid }

let rec comp () =
  (match nxt () with "C" -> () | t -> failwith ("expected C, got " ^ t));
  let tag = nat () in
  let name = str () in
  let id = str () in
  let encid = str () in
  let i = imp () in
  let vars = many var in
  let resets = many reset in
  let math = many xml in
  let kids = many comp in
  Comp ({ c_tag = tag; c_name = name; c_id = id; c_encid = encid; c_imp = i; c_vars = vars; c_resets = resets; c_math = math }, kids)

let model () =
  (match nxt () with "M" -> () | t -> failwith ("expected M, got " ^ t));
  let name = str () in
  let id = str () in
  let encid = str () in
  let us = many units in
  let cs = many comp in
  { m_name = name; m_id = id; m_encid = encid; m_units = us; m_comps = cs }

let world line =
  toks := Array.of_list (List.filter (fun t -> t <> "") (String.split_on_char ' ' line));
  pos := 0;
  (match nxt () with "W" -> () | t -> failwith ("expected W, got " ^ t));
  many model

let rule_key r = match vrule_num r with Some n -> Printf.sprintf "%05d" (int_of_nat n) | None -> implode (vrule_name r)
let rule_txt r = match vrule_num r with Some n -> string_of_int (int_of_nat n) | None -> implode (vrule_name r)

let () =
  match Sys.argv.(1) with
  | "rules" ->
    List.iter (fun r -> Printf.printf "%s %s\n" (rule_txt r) (implode (vrule_name r))) all_vrules
  | "xmlname" ->
    let ic = open_in Sys.argv.(2) in
    (try
       while true do
         let s = explode (hexdecode (input_line ic)) in
         Printf.printf "%s %s\n" (if is_xml_name s then "1" else "0") (if valid_is_ident s then "1" else "0")
       done
     with End_of_file -> ());
    close_in ic
  | "numdfa" ->
    let ic = open_in Sys.argv.(2) in
    (try
       while true do
         let s = explode (hexdecode (input_line ic)) in
         Printf.printf "%s %s\n" (if real_dfa s then "1" else "0") (if int_dfa s then "1" else "0")
       done
     with End_of_file -> ());
    close_in ic
  | "run" ->
    let fx = if Array.length Sys.argv > 3 then
        (match Sys.argv.(3) with
         | "fixed" -> all_fixed | "unfixed" -> unfixed | "current" -> current_fixes
         | b when String.length b = 4 ->
           { fx_reset_set = b.[0] = '1'; fx_math_qual = b.[1] = '1'; fx_isrc_once = b.[2] = '1'; fx_name_pairs = b.[3] = '1' }
         | _ -> failwith "bad fixes argument")
      else current_fixes in
    let early = if Array.length Sys.argv > 4 then Sys.argv.(4) = "early" else current_early in
    let ic = open_in Sys.argv.(2) in
    (try
       while true do
         let line = input_line ic in
         let out =
           try
             let w = world line in
             let is = validate fx ueq_c08 early w in
             let tbl = Hashtbl.create 16 in
             List.iter (fun (_, r) ->
                 let k = (rule_key r, rule_txt r) in
                 Hashtbl.replace tbl k (1 + (try Hashtbl.find tbl k with Not_found -> 0))) is;
             let l = List.sort compare (Hashtbl.fold (fun k v acc -> (k, v) :: acc) tbl []) in
             if l = [] then "-" else String.concat " " (List.map (fun ((_, t), n) -> Printf.sprintf "%s*%d" t n) l)
           with Failure m -> "PARSE-ERROR(" ^ m ^ ")" | Invalid_argument m -> "PARSE-ERROR(" ^ m ^ ")"
         in
         print_endline out
       done
     with End_of_file -> ());
    close_in ic
  | _ -> prerr_endline "usage: driver run|rules|xmlname ..."; exit 2
