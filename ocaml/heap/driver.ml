(* OCaml side of the C09 correspondence: runs the extracted heap model on API scripts (harness/common/script.hpp
   syntax) and prints what harness/c09_driver.cpp prints.  Glue only: parsing, slot <-> object numbering, text.
   usage: driver <casefile> seq|full [unfixed] *)
open Heap_model

let rec nat_of_int n = if n <= 0 then O else S (nat_of_int (n - 1))
let rec int_of_nat = function O -> 0 | S n -> 1 + int_of_nat n
let explode s = List.init (String.length s) (String.get s)
let implode l = String.of_seq (List.to_seq l)

let hexdecode h =
  let n = String.length h / 2 in
  String.init n (fun i -> Char.chr (int_of_string ("0x" ^ String.sub h (2 * i) 2)))

(* s<hex> *)
let str_tok t = explode (hexdecode (String.sub t 1 (String.length t - 1)))

let split c s = String.split_on_char c s

(* slot table: slot -> object id (None: empty), kept beside the model state *)
type st = { mutable model : state; mutable slots : int option array }

let id_of_slot g t : nat option option =
  (* Some None = null; None = unusable (empty / no such slot) *)
  if t = "null" then Some None
  else
    match int_of_string_opt t with
    | Some k when k >= 0 && k < Array.length g.slots ->
        (match g.slots.(k) with Some id -> Some (Some (nat_of_int id)) | None -> None)
    | _ -> None

let slot_of_id g id =
  let r = ref (-1) in
  Array.iteri (fun i v -> if !r < 0 && v = Some id then r := i) g.slots;
  !r

exception Bad of string

let recv g t = match id_of_slot g t with Some (Some n) -> n | _ -> raise (Bad "receiver")
let oarg g t = match id_of_slot g t with Some o -> o | None -> raise (Bad "arg")
let idx t = if t = "-1" then nat_of_int 1000 else match int_of_string_opt t with
  | Some k when k >= 0 -> nat_of_int (min k 1000) | _ -> raise (Bad "index")
let boolean t = match t with "true" | "1" -> true | "false" | "0" -> false | _ -> raise (Bad "bool")
let optb a i = if Array.length a > i then boolean a.(i) else true

let parse_op g (line : string) : op =
  let a = Array.of_list (List.filter (fun x -> x <> "") (split ' ' line)) in
  let n = Array.length a in
  let need k = if n < k + 1 then raise (Bad "arity") in
  match a.(0) with
  | "addcomponent" -> need 2; AddComponent (recv g a.(1), oarg g a.(2))
  | "removecomponent_i" -> need 2; RemoveComponentIdx (recv g a.(1), idx a.(2))
  | "removecomponent_n" -> need 2; RemoveComponentName (recv g a.(1), str_tok a.(2), optb a 3)
  | "removecomponent_p" -> need 2; RemoveComponentPtr (recv g a.(1), oarg g a.(2), optb a 3)
  | "takecomponent_i" -> need 2; TakeComponentIdx (recv g a.(1), idx a.(2))
  | "takecomponent_n" -> need 2; TakeComponentName (recv g a.(1), str_tok a.(2), optb a 3)
  | "replacecomponent_i" -> need 3; ReplaceComponentIdx (recv g a.(1), idx a.(2), oarg g a.(3))
  | "replacecomponent_n" -> need 3; ReplaceComponentName (recv g a.(1), str_tok a.(2), oarg g a.(3), optb a 4)
  | "replacecomponent_p" -> need 3; ReplaceComponentPtr (recv g a.(1), oarg g a.(2), oarg g a.(3), optb a 4)
  | "removeallcomponents" -> need 1; RemoveAllComponents (recv g a.(1))
  | "addvariable" -> need 2; AddVariable (recv g a.(1), oarg g a.(2))
  | "removevariable_i" -> need 2; RemoveVariableIdx (recv g a.(1), idx a.(2))
  | "removevariable_n" -> need 2; RemoveVariableName (recv g a.(1), str_tok a.(2))
  | "removevariable_p" -> need 2; RemoveVariablePtr (recv g a.(1), oarg g a.(2))
  | "takevariable_i" -> need 2; TakeVariableIdx (recv g a.(1), idx a.(2))
  | "takevariable_n" -> need 2; TakeVariableName (recv g a.(1), str_tok a.(2))
  | "removeallvariables" -> need 1; RemoveAllVariables (recv g a.(1))
  | "addreset" -> need 2; AddReset (recv g a.(1), oarg g a.(2))
  | "removereset_i" -> need 2; RemoveResetIdx (recv g a.(1), idx a.(2))
  | "removereset_p" -> need 2; RemoveResetPtr (recv g a.(1), oarg g a.(2))
  | "takereset" -> need 2; TakeReset (recv g a.(1), idx a.(2))
  | "removeallresets" -> need 1; RemoveAllResets (recv g a.(1))
  | "addunits" -> need 2; AddUnits (recv g a.(1), oarg g a.(2))
  | "removeunits_i" -> need 2; RemoveUnitsIdx (recv g a.(1), idx a.(2))
  | "removeunits_n" -> need 2; RemoveUnitsName (recv g a.(1), str_tok a.(2))
  | "removeunits_p" -> need 2; RemoveUnitsPtr (recv g a.(1), oarg g a.(2))
  | "takeunits_i" -> need 2; TakeUnitsIdx (recv g a.(1), idx a.(2))
  | "takeunits_n" -> need 2; TakeUnitsName (recv g a.(1), str_tok a.(2))
  | "replaceunits_i" -> need 3; ReplaceUnitsIdx (recv g a.(1), idx a.(2), oarg g a.(3))
  | "replaceunits_n" -> need 3; ReplaceUnitsName (recv g a.(1), str_tok a.(2), oarg g a.(3))
  | "replaceunits_p" -> need 3; ReplaceUnitsPtr (recv g a.(1), oarg g a.(2), oarg g a.(3))
  | "removeallunits" -> need 1; RemoveAllUnits (recv g a.(1))
  | "addequivalence" -> need 2; AddEquivalence (oarg g a.(1), oarg g a.(2))
  | "addequivalence_ids" -> need 3; AddEquivalence4 (oarg g a.(1), oarg g a.(2))
  | "removeequivalence" -> need 2; RemoveEquivalence (oarg g a.(1), oarg g a.(2))
  | "removeallequivalences" -> need 1; RemoveAllEquivalences (recv g a.(1))
  | "setunits_p" -> need 2; SetUnits (recv g a.(1), oarg g a.(2))
  | "removeunits" -> need 1; SetUnits (recv g a.(1), None)
  | "setvariable" -> need 2; SetResetVariable (recv g a.(1), oarg g a.(2))
  | "settestvariable" -> need 2; SetResetTestVariable (recv g a.(1), oarg g a.(2))
  | "release" -> need 1; Release (recv g a.(1))
  | _ -> raise (Bad "command")

let release_slot g line =
  let a = Array.of_list (List.filter (fun x -> x <> "") (split ' ' line)) in
  if Array.length a >= 2 && a.(0) = "release" then
    match int_of_string_opt a.(1) with
    | Some k when k >= 0 && k < Array.length g.slots -> g.slots.(k) <- None
    | _ -> ()

(* ---- text, as snapshot.hpp *)
let kind_name = function KModel -> "model" | KComp -> "component" | KVar -> "variable" | KUnits -> "units" | KReset -> "reset"

let snapshot g =
  let b = Buffer.create 1024 in
  let s = g.model in
  let sref o = match o with
    | None -> "none"
    | Some id -> let k = slot_of_id g (int_of_nat id) in if k < 0 then "ext" else string_of_int k in
  let child id = let k = slot_of_id g (int_of_nat id) in if k < 0 then "?" else string_of_int k in
  let lst l = "(" ^ String.concat " " (List.map child l) ^ ")" in
  let first = ref true in
  Array.iteri (fun slot v ->
    match v with
    | None -> ()
    | Some id ->
        let o = getd s (nat_of_int id) in
        if not !first then Buffer.add_char b ' ';
        first := false;
        Buffer.add_string b ("[" ^ string_of_int slot ^ " " ^ kind_name o.o_kind ^ " ");
        (match o.o_kind with
         | KReset -> Buffer.add_string b "-"
         | _ -> Buffer.add_string b ("\"" ^ implode o.o_name ^ "\""));
        Buffer.add_string b (" parent=" ^ sref o.o_parent);
        (match o.o_kind with
         | KModel -> Buffer.add_string b (" comps=" ^ lst o.o_comps ^ " units=" ^ lst o.o_units)
         | KComp -> Buffer.add_string b (" comps=" ^ lst o.o_comps ^ " vars=" ^ lst o.o_vars ^ " resets=" ^ lst o.o_resets ^ " imp=none")
         | KVar -> Buffer.add_string b (" eq=" ^ lst o.o_eqs ^ " units=" ^ sref o.o_vunits)
         | KUnits -> Buffer.add_string b " imp=none"
         | KReset -> Buffer.add_string b (" var=" ^ sref o.o_rvar ^ " testvar=" ^ sref o.o_rtest));
        Buffer.add_char b ']') g.slots;
  Buffer.contents b

let mask = (1 lsl 61) - 1
let hash_update h s =
  let h = ref h in
  String.iter (fun c -> h := (!h * 1000003 + Char.code c) land mask) s;
  (!h * 1000003 + 10) land mask

let ret_text g = function
  | RBool true -> "true"
  | RBool false -> "false"
  | RUnit -> "-"
  | RIll -> "ERR"
  | RObj None -> "null"
  | RObj (Some x) ->
      let id = int_of_nat x in
      let k = slot_of_id g id in
      if k >= 0 then string_of_int k
      else begin
        g.slots <- Array.append g.slots [| Some id |];
        "new" ^ string_of_int (Array.length g.slots - 1)
      end

let parse_universe line =
  let toks = List.tl (List.filter (fun x -> x <> "") (split ' ' line)) in
  List.map (fun t ->
    if t = "r" then (KReset, [])
    else
      let nm = explode (String.sub t 2 (String.length t - 2)) in
      match t.[0] with
      | 'm' -> (KModel, nm) | 'c' -> (KComp, nm) | 'v' -> (KVar, nm) | 'u' -> (KUnits, nm)
      | _ -> failwith "universe") toks

type res = Crashed | Done

let () =
  let file = Sys.argv.(1) in
  let full = Array.length Sys.argv > 2 && Sys.argv.(2) = "full" in
  let fixed = not (Array.length Sys.argv > 3 && Sys.argv.(3) = "unfixed") in
  let ic = open_in file in
  let uni = parse_universe (input_line ic) in
  let setups : (string, string list) Hashtbl.t = Hashtbl.create 8 in
  let pending = ref None in
  (* header lines `setup <name> <op>;<op>;...` *)
  (try
     let continue = ref true in
     while !continue do
       let l = input_line ic in
       if String.length l > 6 && String.sub l 0 6 = "setup " then begin
         let rest = String.sub l 6 (String.length l - 6) in
         let sp = String.index rest ' ' in
         Hashtbl.replace setups (String.sub rest 0 sp)
           (List.filter (fun x -> String.trim x <> "") (split ';' (String.sub rest (sp + 1) (String.length rest - sp - 1))))
       end else begin pending := Some l; continue := false end
     done
   with End_of_file -> ());
  let n = List.length uni in
  let fresh () = { model = init uni; slots = Array.init n (fun i -> Some i) } in
  let cache : (string, state * int option array) Hashtbl.t = Hashtbl.create 16 in
  (* one op: returns the ret text, or None when the model says the call does not return *)
  let exec g line =
    match (try Some (parse_op g line) with Bad _ -> None) with
    | None -> Some ("ERR", false)
    | Some o ->
        let carve = readds g.model o in
        (match step_conc fixed g.model o with
         | Crash -> None
         | Ok (s', r) ->
             g.model <- s';
             release_slot g line;
             Some (ret_text g r, carve))
  in
  (try
     while true do
       let line = match !pending with Some l -> pending := None; l | None -> input_line ic in
       let ops = List.filter (fun x -> String.trim x <> "") (split ';' line) in
       let rec take k l = if k = 0 then ([], l) else match l with [] -> ([], []) | x :: t -> let (a, b) = take (k - 1) t in (x :: a, b) in
       let setup, rest =
         match ops with
         | h :: t when String.length h > 0 && h.[0] = '@' ->
             let tag = String.sub h 1 (String.length h - 1) in
             (match Hashtbl.find_opt setups tag with
              | Some sl -> (sl, t)
              | None -> take (int_of_string tag) t)
         | _ -> ([], ops) in
       let nsetup = List.length setup in
       let key = String.concat ";" setup in
       let g =
         if nsetup = 0 then fresh ()
         else
           match Hashtbl.find_opt cache key with
           | Some (m, sl) -> { model = m; slots = Array.copy sl }
           | None ->
               let g = fresh () in
               List.iter (fun l -> ignore (exec g l)) setup;
               Hashtbl.replace cache key (g.model, Array.copy g.slots);
               g in
       let out = Buffer.create 256 in
       let rets = Buffer.create 64 in
       let h = ref 7 in
       let carve_at = ref (-1) in
       let k = ref 0 in
       let crashed = ref false in
       List.iter (fun l ->
         if not !crashed then
           match exec g l with
           | None ->
               crashed := true
           | Some (r, carve) ->
               let snap = snapshot g in
               if carve && !carve_at < 0 then carve_at := !k;
               if full then begin
                 if !k > 0 then Buffer.add_string out " ;; ";
                 Buffer.add_string out (r ^ " " ^ (if carve then "carve" else "in") ^ " | " ^ snap)
               end else begin
                 if !k > 0 then Buffer.add_char rets ',';
                 Buffer.add_string rets r;
                 h := hash_update !h snap
               end;
               incr k) rest;
       if !crashed && full then print_string (Buffer.contents out ^ (if !k > 0 then " ;; " else "") ^ "CRASH\n")
       else if !crashed then
         Printf.printf "%s%sCRASH carve=%s %016x\n" (Buffer.contents rets) (if !k > 0 then "," else "")
           (if !carve_at < 0 then "-" else string_of_int !carve_at) !h
       else if full then print_string (Buffer.contents out ^ "\n")
       else Printf.printf "%s carve=%s %016x\n" (Buffer.contents rets)
              (if !carve_at < 0 then "-" else string_of_int !carve_at) !h
     done
   with End_of_file -> ());
  close_in ic
