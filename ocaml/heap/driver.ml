(* OCaml side of the C09 correspondence: runs the extracted heap model on API scripts (harness/common/script.hpp
   syntax) and prints what harness/c09_driver.cpp prints.  Glue only: parsing, slot <-> object numbering, text.
   usage: driver <casefile> seq|full [unfixed] *)
open Heap_model

let rec nat_of_int n = if n <= 0 then O else S (nat_of_int (n - 1))
let rec int_of_nat = function O -> 0 | S n -> 1 + int_of_nat n
let explode s = List.init (String.length s) (String.get s)
let implode l = String.of_seq (List.to_seq l)

let hexdecode h =
  let n = String.length h / 2 in
  String.init n (fun i -> Char.chr (int_of_string ("0x" ^ String.sub h (2 * i) 2)))

(* s<hex> *)
let str_tok t = explode (hexdecode (String.sub t 1 (String.length t - 1)))

let split c s = String.split_on_char c s

(* slot table: slot -> object id (None: empty), kept beside the model state *)
type st = { mutable model : state; mutable slots : int option array;
            (* residues of the history, for the state-class signature (selection of start states only) *)
            mutable dirty : int list;      (* variables one of whose equivalents was destroyed, no equivalence edit since *)
            mutable orphaned : int list;   (* objects whose parent was destroyed *)
            mutable emptied : bool; mutable moved : bool; mutable nbad : int }

let id_of_slot g t : nat option option =
  (* Some None = null; None = unusable (empty / no such slot) *)
  if t = "null" then Some None
  else
    match int_of_string_opt t with
    | Some k when k >= 0 && k < Array.length g.slots ->
        (match g.slots.(k) with Some id -> Some (Some (nat_of_int id)) | None -> None)
    | _ -> None

let slot_of_id g id =
  let r = ref (-1) in
  Array.iteri (fun i v -> if !r < 0 && v = Some id then r := i) g.slots;
  !r

exception Bad of string

let recv g t = match id_of_slot g t with Some (Some n) -> n | _ -> raise (Bad "receiver")
let oarg g t = match id_of_slot g t with Some o -> o | None -> raise (Bad "arg")
let idx t = if t = "-1" then nat_of_int 1000 else match int_of_string_opt t with
  | Some k when k >= 0 -> nat_of_int (min k 1000) | _ -> raise (Bad "index")
let boolean t = match t with "true" | "1" -> true | "false" | "0" -> false | _ -> raise (Bad "bool")
let optb a i = if Array.length a > i then boolean a.(i) else true

let parse_op g (line : string) : op =
  let a = Array.of_list (List.filter (fun x -> x <> "") (split ' ' line)) in
  let n = Array.length a in
  let need k = if n < k + 1 then raise (Bad "arity") in
  match a.(0) with
  | "addcomponent" -> need 2; AddComponent (recv g a.(1), oarg g a.(2))
  | "removecomponent_i" -> need 2; RemoveComponentIdx (recv g a.(1), idx a.(2))
  | "removecomponent_n" -> need 2; RemoveComponentName (recv g a.(1), str_tok a.(2), optb a 3)
  | "removecomponent_p" -> need 2; RemoveComponentPtr (recv g a.(1), oarg g a.(2), optb a 3)
  | "takecomponent_i" -> need 2; TakeComponentIdx (recv g a.(1), idx a.(2))
  | "takecomponent_n" -> need 2; TakeComponentName (recv g a.(1), str_tok a.(2), optb a 3)
  | "replacecomponent_i" -> need 3; ReplaceComponentIdx (recv g a.(1), idx a.(2), oarg g a.(3))
  | "replacecomponent_n" -> need 3; ReplaceComponentName (recv g a.(1), str_tok a.(2), oarg g a.(3), optb a 4)
  | "replacecomponent_p" -> need 3; ReplaceComponentPtr (recv g a.(1), oarg g a.(2), oarg g a.(3), optb a 4)
  | "removeallcomponents" -> need 1; RemoveAllComponents (recv g a.(1))
  | "addvariable" -> need 2; AddVariable (recv g a.(1), oarg g a.(2))
  | "removevariable_i" -> need 2; RemoveVariableIdx (recv g a.(1), idx a.(2))
  | "removevariable_n" -> need 2; RemoveVariableName (recv g a.(1), str_tok a.(2))
  | "removevariable_p" -> need 2; RemoveVariablePtr (recv g a.(1), oarg g a.(2))
  | "takevariable_i" -> need 2; TakeVariableIdx (recv g a.(1), idx a.(2))
  | "takevariable_n" -> need 2; TakeVariableName (recv g a.(1), str_tok a.(2))
  | "removeallvariables" -> need 1; RemoveAllVariables (recv g a.(1))
  | "addreset" -> need 2; AddReset (recv g a.(1), oarg g a.(2))
  | "removereset_i" -> need 2; RemoveResetIdx (recv g a.(1), idx a.(2))
  | "removereset_p" -> need 2; RemoveResetPtr (recv g a.(1), oarg g a.(2))
  | "takereset" -> need 2; TakeReset (recv g a.(1), idx a.(2))
  | "removeallresets" -> need 1; RemoveAllResets (recv g a.(1))
  | "addunits" -> need 2; AddUnits (recv g a.(1), oarg g a.(2))
  | "removeunits_i" -> need 2; RemoveUnitsIdx (recv g a.(1), idx a.(2))
  | "removeunits_n" -> need 2; RemoveUnitsName (recv g a.(1), str_tok a.(2))
  | "removeunits_p" -> need 2; RemoveUnitsPtr (recv g a.(1), oarg g a.(2))
  | "takeunits_i" -> need 2; TakeUnitsIdx (recv g a.(1), idx a.(2))
  | "takeunits_n" -> need 2; TakeUnitsName (recv g a.(1), str_tok a.(2))
  | "replaceunits_i" -> need 3; ReplaceUnitsIdx (recv g a.(1), idx a.(2), oarg g a.(3))
  | "replaceunits_n" -> need 3; ReplaceUnitsName (recv g a.(1), str_tok a.(2), oarg g a.(3))
  | "replaceunits_p" -> need 3; ReplaceUnitsPtr (recv g a.(1), oarg g a.(2), oarg g a.(3))
  | "removeallunits" -> need 1; RemoveAllUnits (recv g a.(1))
  | "addequivalence" -> need 2; AddEquivalence (oarg g a.(1), oarg g a.(2))
  | "addequivalence_ids" -> need 3; AddEquivalence4 (oarg g a.(1), oarg g a.(2))
  | "removeequivalence" -> need 2; RemoveEquivalence (oarg g a.(1), oarg g a.(2))
  | "removeallequivalences" -> need 1; RemoveAllEquivalences (recv g a.(1))
  | "setunits_p" -> need 2; SetUnits (recv g a.(1), oarg g a.(2))
  | "removeunits" -> need 1; SetUnits (recv g a.(1), None)
  | "setvariable" -> need 2; SetResetVariable (recv g a.(1), oarg g a.(2))
  | "settestvariable" -> need 2; SetResetTestVariable (recv g a.(1), oarg g a.(2))
  | "release" -> need 1; Release (recv g a.(1))
  | "containscomponent_n" -> need 2; Query (QContainsComponentName (recv g a.(1), str_tok a.(2), optb a 3))
  | "containscomponent_p" -> need 2; Query (QContainsComponentPtr (recv g a.(1), oarg g a.(2), optb a 3))
  | "component_i" -> need 2; Query (QComponentIdx (recv g a.(1), idx a.(2)))
  | "component_n" -> need 2; Query (QComponentName (recv g a.(1), str_tok a.(2), optb a 3))
  | "hasvariable_n" -> need 2; Query (QHasVariableName (recv g a.(1), str_tok a.(2)))
  | "hasvariable_p" -> need 2; Query (QHasVariablePtr (recv g a.(1), oarg g a.(2)))
  | "variable_i" -> need 2; Query (QVariableIdx (recv g a.(1), idx a.(2)))
  | "variable_n" -> need 2; Query (QVariableName (recv g a.(1), str_tok a.(2)))
  | "hasreset" -> need 2; Query (QHasReset (recv g a.(1), oarg g a.(2)))
  | "reset_i" -> need 2; Query (QResetIdx (recv g a.(1), idx a.(2)))
  | "hasunits_n" -> need 2; Query (QHasUnitsName (recv g a.(1), str_tok a.(2)))
  | "hasunits_p" -> need 2; Query (QHasUnitsPtr (recv g a.(1), oarg g a.(2)))
  | "units_i" -> need 2; Query (QUnitsIdx (recv g a.(1), idx a.(2)))
  | "units_n" -> need 2; Query (QUnitsName (recv g a.(1), str_tok a.(2)))
  | "hasequivalentvariable" -> need 2; Query (QHasEquivalentVariable (recv g a.(1), oarg g a.(2), if n > 3 then boolean a.(3) else false))
  | "equivalentvariable" -> need 2; Query (QEquivalentVariable (recv g a.(1), idx a.(2)))
  | "parent" -> need 1; Query (QParent (recv g a.(1)))
  | "hasparent" -> need 1; Query (QHasParent (recv g a.(1)))
  | "hasancestor" -> need 2; Query (QHasAncestor (recv g a.(1), oarg g a.(2)))
  | "getunits" -> need 1; Query (QGetUnits (recv g a.(1)))
  | "getvariable" -> need 1; Query (QGetVariable (recv g a.(1)))
  | "testvariable" -> need 1; Query (QGetTestVariable (recv g a.(1)))
  | _ -> raise (Bad "command")

let release_slot g line =
  let a = Array.of_list (List.filter (fun x -> x <> "") (split ' ' line)) in
  if Array.length a >= 2 && a.(0) = "release" then
    match int_of_string_opt a.(1) with
    | Some k when k >= 0 && k < Array.length g.slots -> g.slots.(k) <- None
    | _ -> ()

(* ---- text, as snapshot.hpp *)
let kind_name = function KModel -> "model" | KComp -> "component" | KVar -> "variable" | KUnits -> "units" | KReset -> "reset"

let snapshot g =
  let b = Buffer.create 1024 in
  let s = g.model in
  let sref o = match o with
    | None -> "none"
    | Some id -> let k = slot_of_id g (int_of_nat id) in if k < 0 then "ext" else string_of_int k in
  let child id = let k = slot_of_id g (int_of_nat id) in if k < 0 then "?" else string_of_int k in
  let lst l = "(" ^ String.concat " " (List.map child l) ^ ")" in
  let first = ref true in
  Array.iteri (fun slot v ->
    match v with
    | None -> ()
    | Some id ->
        let o = getd s (nat_of_int id) in
        if not !first then Buffer.add_char b ' ';
        first := false;
        Buffer.add_string b ("[" ^ string_of_int slot ^ " " ^ kind_name o.o_kind ^ " ");
        (match o.o_kind with
         | KReset -> Buffer.add_string b "-"
         | _ -> Buffer.add_string b ("\"" ^ implode o.o_name ^ "\""));
        Buffer.add_string b (" parent=" ^ sref o.o_parent);
        (match o.o_kind with
         | KModel -> Buffer.add_string b (" comps=" ^ lst o.o_comps ^ " units=" ^ lst o.o_units)
         | KComp -> Buffer.add_string b (" comps=" ^ lst o.o_comps ^ " vars=" ^ lst o.o_vars ^ " resets=" ^ lst o.o_resets ^ " imp=none")
         | KVar -> Buffer.add_string b (" eq=" ^ lst o.o_eqs ^ " units=" ^ sref o.o_vunits)
         | KUnits -> Buffer.add_string b " imp=none"
         | KReset -> Buffer.add_string b (" var=" ^ sref o.o_rvar ^ " testvar=" ^ sref o.o_rtest));
        Buffer.add_char b ']') g.slots;
  Buffer.contents b

let mask = (1 lsl 61) - 1
let hash_update h s =
  let h = ref h in
  String.iter (fun c -> h := (!h * 1000003 + Char.code c) land mask) s;
  (!h * 1000003 + 10) land mask

let ret_text g = function
  | RBool true -> "true"
  | RBool false -> "false"
  | RUnit -> "-"
  | RIll -> "ERR"
  | RObj None -> "null"
  | RObj (Some x) ->
      let id = int_of_nat x in
      let k = slot_of_id g id in
      if k >= 0 then string_of_int k
      else begin
        g.slots <- Array.append g.slots [| Some id |];
        "new" ^ string_of_int (Array.length g.slots - 1)
      end

let parse_universe line =
  let toks = List.tl (List.filter (fun x -> x <> "") (split ' ' line)) in
  List.map (fun t ->
    if t = "r" then (KReset, [])
    else
      let nm = explode (String.sub t 2 (String.length t - 2)) in
      match t.[0] with
      | 'm' -> (KModel, nm) | 'c' -> (KComp, nm) | 'v' -> (KVar, nm) | 'u' -> (KUnits, nm)
      | _ -> failwith "universe") toks

type res = Crashed | Done

let () =
  let file = Sys.argv.(1) in
  let full = Array.length Sys.argv > 2 && Sys.argv.(2) = "full" in
  let fixed = not (Array.length Sys.argv > 3 && Sys.argv.(3) = "unfixed") in
  let ic = open_in file in
  let uni = parse_universe (input_line ic) in
  let setups : (string, string list) Hashtbl.t = Hashtbl.create 8 in
  let pending = ref None in
  (* header lines `setup <name> <op>;<op>;...` *)
  (try
     let continue = ref true in
     while !continue do
       let l = input_line ic in
       if String.length l > 6 && String.sub l 0 6 = "setup " then begin
         let rest = String.sub l 6 (String.length l - 6) in
         let sp = String.index rest ' ' in
         Hashtbl.replace setups (String.sub rest 0 sp)
           (List.filter (fun x -> String.trim x <> "") (split ';' (String.sub rest (sp + 1) (String.length rest - sp - 1))))
       end else begin pending := Some l; continue := false end
     done
   with End_of_file -> ());
  let n = List.length uni in
  let fresh () = { model = init uni; slots = Array.init n (fun i -> Some i); dirty = []; orphaned = []; emptied = false; moved = false; nbad = 0 } in
  let cache : (string, st) Hashtbl.t = Hashtbl.create 16 in
  let copy g = { g with slots = Array.copy g.slots } in
  let nobj = n in
  let track g o s0 s1 =
    let ids = List.init nobj (fun i -> i) in
    let ob s i = getd s (nat_of_int i) in
    let is_alive s i = alive s (nat_of_int i) in
    let eq_op, touched = match o with
      | AddEquivalence (a, b) | AddEquivalence4 (a, b) | RemoveEquivalence (a, b) ->
          true, List.filter_map (fun x -> match x with Some v -> Some (int_of_nat v) | None -> None) [a; b]
      | RemoveAllEquivalences v -> true, int_of_nat v :: List.map int_of_nat (ob s0 (int_of_nat v)).o_eqs
      | _ -> false, [] in
    if eq_op then g.dirty <- List.filter (fun x -> not (List.mem x touched)) g.dirty;
    List.iter (fun x ->
      let o0 = ob s0 x and o1 = ob s1 x in
      if not eq_op && List.exists (fun e -> not (List.mem e o1.o_eqs)) o0.o_eqs && is_alive s1 x && not (List.mem x g.dirty)
      then g.dirty <- x :: g.dirty;
      (match o0.o_parent, o1.o_parent with
       | Some p, None -> if not (is_alive s1 (int_of_nat p)) && not (List.mem x g.orphaned) then g.orphaned <- x :: g.orphaned
       | Some p, Some q -> if p <> q then g.moved <- true
       | None, Some _ -> g.orphaned <- List.filter (fun y -> y <> x) g.orphaned
       | None, None -> ())) ids;
    (match o with
     | RemoveAllComponents k -> if (ob s0 (int_of_nat k)).o_comps <> [] then g.emptied <- true
     | RemoveAllVariables k -> if (ob s0 (int_of_nat k)).o_vars <> [] then g.emptied <- true
     | RemoveAllResets k -> if (ob s0 (int_of_nat k)).o_resets <> [] then g.emptied <- true
     | RemoveAllUnits k -> if (ob s0 (int_of_nat k)).o_units <> [] then g.emptied <- true
     | _ -> ()) in
  let signature g =
    let s = g.model in
    let held = List.filter_map (fun v -> v) (Array.to_list g.slots) in
    let ob i = getd s (nat_of_int i) in
    let has p = if List.exists p held then '1' else '0' in
    let orph k = has (fun x -> (ob x).o_kind = k && List.mem x g.orphaned && (ob x).o_parent = None) in
    let noparent v = (getd s v).o_parent = None in
    String.init 12 (fun i -> match i with
      | 0 -> has (fun x -> List.mem x g.dirty)
      | 1 -> orph KComp | 2 -> orph KVar | 3 -> orph KUnits | 4 -> orph KReset
      | 5 -> has (fun x -> match (ob x).o_rvar with Some v -> (ob x).o_kind = KReset && noparent v | None -> false)
      | 6 -> has (fun x -> match (ob x).o_vunits with Some u -> noparent u | None -> false)
      | 7 -> has (fun x -> match (ob x).o_vunits with Some u -> List.mem (int_of_nat u) g.orphaned | None -> false)
      | 8 -> if g.emptied then '1' else '0'
      | 9 -> if g.moved then '1' else '0'
      | 10 -> let live = List.map int_of_nat (reach_set s) in
              if List.exists (fun i -> not (List.mem i held)) live then '1' else '0'
      | _ -> has (fun x -> (ob x).o_kind = KVar && (ob x).o_eqs <> [])) in
  (* one op: returns the ret text, or None when the model says the call does not return *)
  let exec g line =
    match (try Some (parse_op g line) with Bad _ -> None) with
    | None -> Some ("ERR", false)
    | Some o ->
        let carve = readds g.model o in
        if bad_arg fixed seq_conc g.model o then g.nbad <- g.nbad + 1;
        (match step_conc fixed g.model o with
         | Crash -> None
         | Ok (s', r) ->
             track g o g.model s';
             g.model <- s';
             release_slot g line;
             Some (ret_text g r, carve))
  in
  (try
     while true do
       let line = match !pending with Some l -> pending := None; l | None -> input_line ic in
       let ops = List.filter (fun x -> String.trim x <> "") (split ';' line) in
       let rec take k l = if k = 0 then ([], l) else match l with [] -> ([], []) | x :: t -> let (a, b) = take (k - 1) t in (x :: a, b) in
       let setup, rest =
         match ops with
         | h :: t when String.length h > 0 && h.[0] = '@' ->
             let tag = String.sub h 1 (String.length h - 1) in
             (match Hashtbl.find_opt setups tag with
              | Some sl -> (sl, t)
              | None -> take (int_of_string tag) t)
         | _ -> ([], ops) in
       let nsetup = List.length setup in
       let key = String.concat ";" setup in
       let g =
         if nsetup = 0 then fresh ()
         else
           match Hashtbl.find_opt cache key with
           | Some g0 -> copy g0
           | None ->
               let g = fresh () in
               List.iter (fun l -> ignore (exec g l)) setup;
               g.nbad <- 0;
               Hashtbl.replace cache key (copy g);
               g in
       let out = Buffer.create 256 in
       let rets = Buffer.create 64 in
       let h = ref 7 in
       let carve_at = ref (-1) in
       let k = ref 0 in
       let crashed = ref false in
       List.iter (fun l ->
         if not !crashed then
           match exec g l with
           | None ->
               crashed := true
           | Some (r, carve) ->
               let snap = snapshot g in
               if carve && !carve_at < 0 then carve_at := !k;
               if full then begin
                 if !k > 0 then Buffer.add_string out " ;; ";
                 Buffer.add_string out (r ^ " " ^ (if carve then "carve" else "in") ^ " | " ^ snap)
               end else begin
                 if !k > 0 then Buffer.add_char rets ',';
                 Buffer.add_string rets r;
                 h := hash_update !h snap
               end;
               incr k) rest;
       if !crashed && full then print_string (Buffer.contents out ^ (if !k > 0 then " ;; " else "") ^ "CRASH\n")
       else if !crashed then
         Printf.printf "%s%sCRASH carve=%s %016x cls=%s bad=%d\n" (Buffer.contents rets) (if !k > 0 then "," else "")
           (if !carve_at < 0 then "-" else string_of_int !carve_at) !h (signature g) g.nbad
       else if full then print_string (Buffer.contents out ^ "\n")
       else Printf.printf "%s carve=%s %016x cls=%s bad=%d\n" (Buffer.contents rets)
              (if !carve_at < 0 then "-" else string_of_int !carve_at) !h (signature g) g.nbad
     done
   with End_of_file -> ());
  close_in ic
