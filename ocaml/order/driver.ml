(* OCaml side of the C03 emission-order tie.  Glue only.
   argv[1] = file listing one <path>.dump per line (written by harness/c03_model_driver.cpp: T / S / V / E records).
   For each: builds the AnalysisDefs.result the records describe and prints, TAB separated,
       init=<slots> consts=<slots> rates=<slots> vars=<slots> ordered=<consts><rates><vars 0|1 each>
   where <slots> = the array entries assigned by the statements of ExternalDefs.method_bodies, in order, as
   "variables[i]" / "states[i]" / "rates[i]" / "findRoot<n>" joined by ",".  *)
open Order_model

let rec nat_of_int n = if n <= 0 then O else S (nat_of_int (n - 1))
let rec int_of_nat = function O -> 0 | S m -> 1 + int_of_nat m
let ints s = if s = "-" then [] else List.filter_map (fun x -> if x = "-" then None else Some (int_of_string x)) (String.split_on_char ',' s)

let read_file p = let ic = open_in p in let n = in_channel_length ic in let s = really_input_string ic n in close_in ic; s

let vref_of kind idx = if kind = "state" then (O, nat_of_int idx) else (S O, nat_of_int idx)

let build text =
  let mt = ref MUnknown and states = ref [] and vars = ref [] and eqs = ref [] in
  List.iter (fun line ->
      match String.split_on_char ' ' line with
      | "T" :: t :: _ ->
        mt := (match t with "ode" -> MOde | "dae" -> MDae | "nla" -> MNla | "algebraic" -> MAlgebraic | _ -> MUnknown)
      | "S" :: i :: e :: _ ->
        states := { av_var = vref_of "state" (int_of_string i); av_type = AState; av_index = nat_of_int (int_of_string i);
                    av_init = None; av_eqs = List.map nat_of_int (ints e) } :: !states
      | "V" :: i :: t :: h :: e :: _ ->
        let ty = (match t with "constant" -> AConstant | "computed_constant" -> ACompConst | "algebraic" -> AAlgebraic
                             | "external" -> AExternal | _ -> AState) in
        vars := { av_var = vref_of "variable" (int_of_string i); av_type = ty; av_index = nat_of_int (int_of_string i);
                  av_init = (if h = "1" then Some (S (S O), O) else None); av_eqs = List.map nat_of_int (ints e) } :: !vars
      | "E" :: p :: t :: n :: vs :: ds :: ss :: _ ->
        let ty = (match t with "true_constant" -> QTrueConst | "variable_based_constant" -> QVarBasedConst | "ode" -> QOde
                             | "nla" -> QNla | "external" -> QExternal | _ -> QAlgebraic) in
        let vrefs = if vs = "-" then [] else
            List.map (fun x -> match String.split_on_char ':' x with
                | [k; i] -> vref_of k (int_of_string i) | _ -> failwith "bad var") (String.split_on_char ',' vs) in
        eqs := { ae_pos = nat_of_int (int_of_string p); ae_id = None; ae_type = ty; ae_vars = vrefs;
                 ae_deps = List.map nat_of_int (ints ds); ae_nla = (if n = "-" then None else Some (nat_of_int (int_of_string n)));
                 ae_sibs = List.map nat_of_int (ints ss) } :: !eqs
      | _ -> ()) (String.split_on_char '\n' text);
  { r_type = !mt; r_issues = []; r_voi = None; r_states = List.rev !states; r_vars = List.rev !vars;
    r_eqs = List.rev !eqs; r_ids = [] }

let slot_text = function
  | SlVariable i -> Printf.sprintf "variables[%d]" (int_of_nat i)
  | SlState i -> Printf.sprintf "states[%d]" (int_of_nat i)
  | SlRate i -> Printf.sprintf "rates[%d]" (int_of_nat i)
  | SlFindRoot n -> Printf.sprintf "findRoot%d" (int_of_nat n)
  | SlUnknown -> "?"

let () =
  let ic = open_in Sys.argv.(1) in
  (try
     while true do
       let path = input_line ic in
       (try
          let r = build (read_file path) in
          let b = emission r in
          let txt l = String.concat "," (List.map slot_text (body_slots r l)) in
          (* the ordering claim, evaluated on this model: remainingEquations at the start of each method *)
          let (_, r1) = initialise_body r sfx (all_pos r) in
          let (_, r2) = computed_constants_body r sfx r1 in
          let (_, r3) = rates_body r sfx r2 in
          let o1 = ordered_all r true [] r1 [] (eq_positions b.b_consts)
          and o2 = ordered_all r true [] r2 [] (eq_positions b.b_rates)
          and o3 = ordered_all r false r3 (all_pos r) [] (eq_positions b.b_vars) in
          let bit x = if x then "1" else "0" in
          Printf.printf "init=%s\tconsts=%s\trates=%s\tvars=%s\tordered=%s%s%s\n" (txt b.b_init) (txt b.b_consts) (txt b.b_rates)
            (txt b.b_vars) (bit o1) (bit o2) (bit o3)
        with e -> Printf.printf "ERROR %s\n" (Printexc.to_string e))
     done
   with End_of_file -> ());
  close_in ic
