(* OCaml side of the C16 correspondence: one line per hex-encoded case. Glue only: no property logic. *)
open Num_model

let explode s = List.init (String.length s) (String.get s)
let implode l = String.of_seq (List.to_seq l)
let hexdecode h =
  let n = String.length h / 2 in
  String.init n (fun i -> Char.chr (int_of_string ("0x" ^ String.sub h (2 * i) 2)))
let b x = if x then "1" else "0"
let zs z = implode (z_to_string z)

let () =
  let ic = open_in Sys.argv.(1) in
  (try
     while true do
       let line = input_line ic in
       let s = explode (hexdecode line) in
       let ti = match cellml_to_int s with Rejected -> "no" | OutOfRange -> "range" | Value z -> zs z in
       let cd = match convert_to_double s with DRejected -> "rej" | DConverted -> "conv" | DThrowsInvalidArgument -> "throw" in
       let ci = match convert_to_int_flow s with IRejected -> "rej" | IConverted -> "conv" | IThrowsInvalidArgument -> "throw" in
       let rp = match real_parts s with
         | None -> "none"
         | Some ((neg, m), e) -> (if neg then "-" else "") ^ zs m ^ "e" ^ zs e in
       let st = strip s in
       let rps = match real_parts st with
         | None -> "none"
         | Some ((neg, m), e) -> (if neg then "-" else "") ^ zs m ^ "e" ^ zs e in
       let pos = String.concat "" (List.map (fun p -> b (pos_recognised p s) ^ b (pos_int_in_range p s))
         [PExponent; PMultiplier; PPrefix; POrder; PInitial; PCn; PCnMantissa; PCnExponent]) in
       Printf.printf "%s %s %s %s int=%s cd=%s ci=%s parts=%s rdfa=%s idfa=%s g15=%s pos=%s sparts=%s\n"
         (b (is_int s)) (b (is_basic_real s)) (b (is_real s)) (b (is_nonneg_int s)) ti cd ci rp
         (b (real_dfa s)) (b (int_dfa s)) (b (g15_shape s)) pos rps
     done
   with End_of_file -> ());
  close_in ic
