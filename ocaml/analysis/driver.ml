(* OCaml side of the C05 correspondence.  Glue only: parses a case line into the Coq input type, runs the
   extracted model, prints the canonical line (same format as harness/c05_driver.cpp).  No property logic.

   usage: driver analyse <case file>
   case line: <ncomps> { <nvars> { <name> <cls> <init: n | c | r<name>> } <neqs> { <id> <expr> <expr> } }
   expr (prefix): V <name> | D <tname> <xname> | N | O <expr> <expr> *)
open Analysis_model

let rec nat_of_int i = if i <= 0 then O else S (nat_of_int (i - 1))
(* indices read back from a dump: anything absurd (e.g. size_t(-1)) becomes a large index *)
let index_of_string s = match int_of_string_opt s with Some i when i >= 0 && i < 100000 -> i | _ -> 100000
let rec int_of_nat = function O -> 0 | S n -> 1 + int_of_nat n

(* ------------------------------------------------------------------ parsing *)
let parse_system (line : string) : comp list =
  let toks = ref (List.filter (fun s -> s <> "") (String.split_on_char ' ' line)) in
  let next () = match !toks with t :: r -> toks := r; t | [] -> failwith "short case" in
  let nat () = nat_of_int (int_of_string (next ())) in
  let rec expr () =
    match next () with
    | "V" -> EVar (nat ())
    | "D" -> let t = nat () in let x = nat () in EDiff (t, x)
    | "N" -> ECn
    | "O" -> let a = expr () in let b = expr () in EOp (a, b)
    | t -> failwith ("bad expr token " ^ t) in
  let init () =
    let t = next () in
    if t = "n" then INone else if t = "c" then IConst
    else IRef (nat_of_int (int_of_string (String.sub t 1 (String.length t - 1)))) in
  let ncomps = int_of_string (next ()) in
  List.init ncomps (fun _ ->
    let nv = int_of_string (next ()) in
    let vars = List.init nv (fun _ -> let n = nat () in let c = nat () in let i = init () in
                              { v_name = n; v_cls = c; v_init = i }) in
    let ne = int_of_string (next ()) in
    let eqs = List.init ne (fun _ -> let id = nat () in let l = expr () in let r = expr () in
                             { q_id = id; q_lhs = l; q_rhs = r }) in
    { c_vars = vars; c_eqs = eqs })

(* ------------------------------------------------------------------ printing *)
let vid (c, v) = Printf.sprintf "%d.%d" (int_of_nat c) (int_of_nat v)
let ovid = function Some r -> vid r | None -> "-"
let mtype = function
  | MUnknown -> "unknown" | MAlgebraic -> "algebraic" | MDae -> "dae" | MInvalid -> "invalid" | MNla -> "nla"
  | MOde -> "ode" | MOverconstrained -> "overconstrained" | MUnderconstrained -> "underconstrained"
  | MUnsuitably -> "unsuitably_constrained"
let atype = function
  | AState -> "state" | AConstant -> "constant" | ACompConst -> "computed_constant" | AAlgebraic -> "algebraic"
  | AExternal -> "external"
let qtype = function
  | QTrueConst -> "true_constant" | QVarBasedConst -> "variable_based_constant" | QOde -> "ode" | QNla -> "nla"
  | QAlgebraic -> "algebraic" | QExternal -> "external"
let rule = function
  | RInitTwice -> "INIT_TWICE" | RNonConstInit -> "NON_CONST_INIT" | RVoiInit -> "VOI_INIT" | RVoiSeveral -> "VOI_SEVERAL"
  | RUnused -> "UNUSED" | RStateNotInit -> "STATE_NOT_INIT" | RComputedTwice -> "COMPUTED_TWICE"

let show (r : result) : string =
  let ids = Array.of_list r.r_ids in
  let eid p = let p = int_of_nat p in
    if p < Array.length ids then (match ids.(p) with Some n -> string_of_int (int_of_nat n) | None -> "null") else "?" in
  let eids l = String.concat "+" (List.map eid l) in
  let issues = List.sort compare (List.map (fun i -> "E:" ^ rule i.is_rule ^ ":" ^ vid i.is_item) r.r_issues) in
  let b = Buffer.create 256 in
  Buffer.add_string b ("T=" ^ mtype r.r_type);
  Buffer.add_string b (" I=" ^ String.concat "," issues);
  Buffer.add_string b (" VOI=" ^ ovid r.r_voi);
  Buffer.add_string b " S=";
  List.iter (fun a -> Buffer.add_string b (Printf.sprintf "%s:%d:%s:%s;" (vid a.av_var) (int_of_nat a.av_index)
                                             (ovid a.av_init) (eids a.av_eqs))) r.r_states;
  Buffer.add_string b " V=";
  List.iter (fun a -> Buffer.add_string b (Printf.sprintf "%s:%s:%d:%s:%s;" (vid a.av_var) (atype a.av_type)
                                             (int_of_nat a.av_index) (ovid a.av_init) (eids a.av_eqs))) r.r_vars;
  Buffer.add_string b " E=";
  List.iter (fun e -> Buffer.add_string b (Printf.sprintf "%s:%s:%s:%s:%s:%s;" (eid e.ae_pos) (qtype e.ae_type)
                                             (String.concat "+" (List.map vid e.ae_vars)) (eids e.ae_deps)
                                             (match e.ae_nla with Some n -> string_of_int (int_of_nat n) | None -> "-")
                                             (eids e.ae_sibs))) r.r_eqs;
  Buffer.contents b

let show_outcome = function
  | Malformed -> "MALFORMED"
  | OutOfFuel -> "OUT_OF_FUEL"
  | Done r -> show r

(* ------------------------------------------------------------------ reading a canonical line back *)
let split c s = if s = "" then [] else String.split_on_char c s
let parse_vid s = match String.split_on_char '.' s with
  | [a; b] -> (nat_of_int (int_of_string a), nat_of_int (int_of_string b))
  | _ -> failwith ("bad variable id " ^ s)
let parse_ovid s = if s = "-" then None else Some (parse_vid s)

let parse_result (line : string) : result =
  let fields = List.filter_map (fun t -> match String.index_opt t '=' with
      | Some i -> Some (String.sub t 0 i, String.sub t (i + 1) (String.length t - i - 1))
      | None -> None) (String.split_on_char ' ' line) in
  let get k = try List.assoc k fields with Not_found -> "" in
  let items k = List.filter (fun x -> x <> "") (split ';' (get k)) in
  let eqs = List.map (fun it -> Array.of_list (String.split_on_char ':' it)) (items "E") in
  let ids = ref (List.map (fun a -> Some (nat_of_int (int_of_string a.(0)))) eqs) in
  let pos_of_id = List.mapi (fun i a -> (a.(0), i)) eqs in
  let eref s =
    match List.assoc_opt s pos_of_id with
    | Some i -> nat_of_int i
    | None -> (* an equation that is not in equations(): a fresh position without id *)
        let p = List.length !ids in ids := !ids @ [None]; nat_of_int p in
  let erefs s = List.map eref (split '+' s) in
  let mt = match get "T" with
    | "unknown" -> MUnknown | "algebraic" -> MAlgebraic | "dae" -> MDae | "invalid" -> MInvalid | "nla" -> MNla
    | "ode" -> MOde | "overconstrained" -> MOverconstrained | "underconstrained" -> MUnderconstrained
    | "unsuitably_constrained" -> MUnsuitably | t -> failwith ("bad model type " ^ t) in
  let at = function
    | "state" -> AState | "constant" -> AConstant | "computed_constant" -> ACompConst | "algebraic" -> AAlgebraic
    | "external" -> AExternal | t -> failwith ("bad variable type " ^ t) in
  let qt = function
    | "true_constant" -> QTrueConst | "variable_based_constant" -> QVarBasedConst | "ode" -> QOde | "nla" -> QNla
    | "algebraic" -> QAlgebraic | "external" -> QExternal | t -> failwith ("bad equation type " ^ t) in
  let states = List.map (fun it -> match String.split_on_char ':' it with
      | [v; i; ini; es] -> { av_var = parse_vid v; av_type = AState; av_index = nat_of_int (index_of_string i);
                             av_init = parse_ovid ini; av_eqs = erefs es }
      | _ -> failwith "bad state item") (items "S") in
  let vars = List.map (fun it -> match String.split_on_char ':' it with
      | [v; t; i; ini; es] -> { av_var = parse_vid v; av_type = at t; av_index = nat_of_int (index_of_string i);
                                av_init = parse_ovid ini; av_eqs = erefs es }
      | _ -> failwith "bad variable item") (items "V") in
  let aeqs = List.mapi (fun i a ->
      { ae_pos = nat_of_int i; ae_id = Some (nat_of_int (int_of_string a.(0))); ae_type = qt a.(1);
        ae_vars = List.map parse_vid (split '+' a.(2)); ae_deps = erefs a.(3);
        ae_nla = (if a.(4) = "-" then None else Some (nat_of_int (int_of_string a.(4)))); ae_sibs = erefs a.(5) }) eqs in
  { r_type = mt; r_issues = []; r_voi = parse_ovid (get "VOI"); r_states = states; r_vars = vars; r_eqs = aeqs;
    r_ids = !ids }

let each_line file f =
  let ic = open_in file in
  (try while true do f (input_line ic) done with End_of_file -> ());
  close_in ic

let () =
  match Sys.argv.(1) with
  | "analyse" ->
      each_line Sys.argv.(2) (fun line ->
        print_endline (try show_outcome (analyse (parse_system line)) with Failure m -> "BAD_CASE " ^ m))
  | "wf" ->
      (* line = <case line> | <canonical line of an analysis (the implementation's or the model's)> *)
      each_line Sys.argv.(2) (fun line ->
        print_endline (try
          match String.index_opt line '|' with
          | None -> "BAD_LINE"
          | Some i ->
              let s = parse_system (String.sub line 0 i) in
              let d = String.trim (String.sub line (i + 1) (String.length line - i - 1)) in
              if String.length d < 2 || String.sub d 0 2 <> "T=" then "WF=na"
              else
                let r = parse_result d in
                (match wf_failures s r with
                 | [] -> "WF=ok"
                 | l -> "WF=" ^ String.concat "," (List.map (fun n -> string_of_int (int_of_nat n)) l)
                        ^ " DEPS=" ^ String.concat "+" (List.map (fun n -> string_of_int (int_of_nat n)) (deps_failing s r)))
        with Failure m -> "BAD_LINE " ^ m | Invalid_argument m -> "BAD_LINE " ^ m))
  | "search" ->
      (* exhaustive search for order dependence: all one-component systems with K classes (each with or without
         an initial value; the last class is the variable of integration of the ODE shapes) and at most N
         equations drawn (with repetition) from the shapes
           a = cn | a = b + cn | a + b = cn | d a/d t = cn | d a/d t = b + cn
         For each system: the classification (model type, role of every class) under every permutation of the
         equations.  Prints counts and the smallest order-dependent system. *)
      let k = int_of_string Sys.argv.(2) and nmax = int_of_string Sys.argv.(3) in
      let v i = EVar (nat_of_int i) in
      let t = k - 1 in
      let shapes = ref [] in
      for a = 0 to k - 1 do shapes := (v a, ECn) :: !shapes done;
      for a = 0 to k - 1 do for b = 0 to k - 1 do if a <> b then shapes := (v a, EOp (v b, ECn)) :: !shapes done done;
      for a = 0 to k - 1 do for b = a to k - 1 do shapes := (EOp (v a, v b), ECn) :: !shapes done done;
      for a = 0 to k - 2 do shapes := (EDiff (nat_of_int t, nat_of_int a), ECn) :: !shapes done;
      for a = 0 to k - 2 do for b = 0 to k - 1 do shapes := (EDiff (nat_of_int t, nat_of_int a), EOp (v b, ECn)) :: !shapes done done;
      let shapes = Array.of_list (List.rev !shapes) in
      let ns = Array.length shapes in
      let rec perms = function
        | [] -> [[]]
        | l -> List.concat_map (fun x -> List.map (fun p -> x :: p) (perms (List.filter (fun y -> y != x) l))) l in
      let systems = ref 0 and analyses = ref 0 and dependent = ref 0 and dep_complete = ref 0 and mixed = ref 0 and best = ref None in
      let classify s = match analyse s with
        | Done r -> let (ty, roles) = classification s r in
            Some (ty, List.sort compare (List.map (fun (c, ro) -> (int_of_nat c, ro)) roles))
        | _ -> None in
      let rec choose start n acc f = if n = 0 then f (List.rev acc) else
        for i = start to ns - 1 do choose i (n - 1) (i :: acc) f done in
      for n = 1 to nmax do
        choose 0 n [] (fun idxs ->
          for mask = 0 to (1 lsl k) - 1 do
            let vars = List.init k (fun i -> { v_name = nat_of_int i; v_cls = nat_of_int i;
                                               v_init = (if (mask lsr i) land 1 = 1 then IConst else INone) }) in
            let eqs = List.mapi (fun j i -> let (l, r) = shapes.(i) in { q_id = nat_of_int (1001 + j); q_lhs = l; q_rhs = r }) idxs in
            incr systems;
            let results = List.map (fun p -> incr analyses; let s = [{ c_vars = vars; c_eqs = p }] in (s, classify s)) (perms eqs) in
            let first = snd (List.hd results) in
            (let cs = List.map (fun (s, _) -> first_pass_complete s = Some true) results in
             if List.exists (fun x -> x) cs && List.exists (fun x -> not x) cs then incr mixed);
            if List.exists (fun (_, c) -> c <> first) results then begin
              incr dependent;
              let complete = List.exists (fun (s, _) -> first_pass_complete s = Some true) results in
              if complete then incr dep_complete;
              (match !best with
               | Some (m, _) when m <= n -> ()
               | _ -> best := Some (n, List.map (fun (s, c) -> match c with Some (ty, _) -> mtype ty | None -> "?") results
                                        |> String.concat "/" |> fun d ->
                                        Printf.sprintf "inits=%d shapes=%s types=%s" mask (String.concat "," (List.map string_of_int idxs)) d))
            end
          done)
      done;
      Printf.printf "SEARCH classes=%d max_equations=%d shapes=%d systems=%d analyses=%d order_dependent=%d order_dependent_with_a_complete_first_pass=%d first_pass_completeness_depends_on_order=%d smallest=[%s]\n"
        k nmax ns !systems !analyses !dependent !dep_complete !mixed (match !best with Some (_, d) -> d | None -> "none")
  | m -> prerr_endline ("unknown mode " ^ m); exit 2
