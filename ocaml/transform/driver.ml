(* OCaml side of the C14 correspondence (family "transform").  Glue only: reads one case per line (checks/c14.py writes
   them), runs the extracted model (Load1xDefs.load1x, To1xDefs.to1x / conv_ok / expressible_1xb, RoundtripSpec.canon /
   printableb), prints TAB separated fields.  No property logic.  The parsing / printing helpers and the environment are
   those of ocaml/roundtrip/driver.ml (C02).

   input line:   M <v><style bits> <ENT tokens> <TAB> <math table>     a 2.0 model (described by harness/c14_driver.cpp) to be
                     rewritten to 1.x:  v = 0 (1.0) | 1 (1.1); style bits = priv_first none pub_out priv_out cm us hoist, then -<mcpos>-<rrpos>
                 D <xml tokens> <TAB> <math table>                     a document tree (python expat parse of a 1.x text)
                 N ( <nxml tokens>* )                                  the math elements of a 1.x document WITH prefixes and xmlns
                     declarations: (n s<prefix> s<ns> s<name> ( (d s<prefix> s<uri>)* ) ( (a s<prefix> s<ns> s<name> s<value>)* ) ( kids ))
                     -> NM <TAB> per math element the raw form of MathNsDefs.stored_math: (r s<qname> ( s<xmlns..=uri>* ) ( s<qname=value>* ) ( kids ))
   output:  M:  EX=<expressible_1xb><printableb><no_imports><no_hierarchy><no_connections><conv_ok (print_tree m)>
                TX=<sxml of to1x m | NONE>  LI= LM=  (load1x, permissive, both fixes)  LI0= LM0= (no fix; "=" when the same)
                LIi= LMi= (only fix C14-interface-none) LId= LMd= (only fix C14-foreign-children)
                SI= SE=<strict: model is the empty model 1/0>  CN=<ENT of canon m>
            D:  the same without EX / TX / CN, plus MS=<every math element is math_in_scope 1/0> *)
open Transform_model

let explode s = List.init (String.length s) (String.get s)
let implode l = String.init (List.length l) (List.nth l)
let implode l = let b = Buffer.create 16 in List.iter (Buffer.add_char b) l; Buffer.contents b
let hexdecode h =
  let n = String.length h / 2 in
  String.init n (fun i -> Char.chr (int_of_string ("0x" ^ String.sub h (2 * i) 2)))
let hexencode s =
  let b = Buffer.create (2 * String.length s) in
  String.iter (fun c -> Buffer.add_string b (Printf.sprintf "%02x" (Char.code c))) s; Buffer.contents b

let rec pos_of_int n = if n = 1 then XH else if n land 1 = 0 then XO (pos_of_int (n lsr 1)) else XI (pos_of_int (n lsr 1))
let z_of_int n = if n = 0 then Z0 else if n > 0 then Zpos (pos_of_int n) else Zneg (pos_of_int (-n))
let rec nat_of_int n = if n <= 0 then O else S (nat_of_int (n - 1))
let rec int_of_nat = function O -> 0 | S n -> 1 + int_of_nat n

exception Bad of string

let toks = ref [||]
let posn = ref 0
let peek () = if !posn < Array.length !toks then !toks.(!posn) else raise (Bad "end of input")
let next () = let t = peek () in incr posn; t
let expect s = let t = next () in if t <> s then raise (Bad ("expected " ^ s ^ " got " ^ t))
let set_input s =
  let b = Buffer.create (String.length s + 64) in
  String.iter (fun c -> if c = '(' || c = ')' then (Buffer.add_char b ' '; Buffer.add_char b c; Buffer.add_char b ' ') else Buffer.add_char b c) s;
  toks := Array.of_list (List.filter (fun t -> t <> "") (String.split_on_char ' ' (Buffer.contents b))); posn := 0

let str_tok tok =
  if String.length tok = 0 || tok.[0] <> 's' then raise (Bad ("string token " ^ tok));
  explode (hexdecode (String.sub tok 1 (String.length tok - 1)))
let str () = str_tok (next ())
let num () = let t = next () in
  if String.length t = 0 || t.[0] <> 'n' then raise (Bad ("number token " ^ t));
  explode (String.sub t 1 (String.length t - 1))
let plist p = expect "("; let rec go acc = if peek () = ")" then (ignore (next ()); List.rev acc) else go (p () :: acc) in go []
let path tok = if tok = "-" then [] else List.map (fun x -> nat_of_int (int_of_string x)) (String.split_on_char '.' tok)

let psrc () =
  if peek () = "-" then (ignore (next ()); None)
  else begin
    expect "("; expect "I";
    let t = nat_of_int (int_of_string (next ())) in let u = str () in let i = str () in expect ")";
    Some { is_tag = t; is_url = u; is_id = i }
  end
let pdef () =
  expect "("; expect "D";
  let r = str () in let p = str () in let e = num () in let m = num () in let i = str () in expect ")";
  { ud_ref = r; ud_prefix = p; ud_exp = e; ud_mult = m; ud_id = i }
let punits () =
  expect "("; expect "U";
  let n = str () in let i = str () in let s = psrc () in let r = str () in let ds = plist pdef in expect ")";
  { u_name = n; u_id = i; u_src = s; u_ref = r; u_defs = ds }
let pvar () =
  expect "("; expect "V";
  let n = str () in let i = str () in
  let u = if peek () = "-" then (ignore (next ()); None) else Some (str ()) in
  let iv = str () in let it = str () in expect ")";
  { v_name = n; v_id = i; v_units = u; v_init = iv; v_iface = it }
let pvref () =
  match next () with
  | "-" -> None
  | "S" -> Some (VSame (str ()))
  | "O" -> Some (VOther (str ()))
  | t -> raise (Bad ("vref " ^ t))
let preset () =
  expect "("; expect "R";
  let i = str () in
  let o = (match next () with "-" -> None | t -> Some (z_of_int (int_of_string t))) in
  let v = pvref () in let t = pvref () in
  let tv = str () in let tvid = str () in let rv = str () in let rvid = str () in expect ")";
  { r_id = i; r_order = o; r_var = v; r_test = t; r_tv = tv; r_tv_id = tvid; r_rv = rv; r_rv_id = rvid }
let rec pcomp () =
  expect "("; expect "C";
  let n = str () in let i = str () in let e = str () in let s = psrc () in let r = str () in let m = str () in
  let vs = plist pvar in let rs = plist preset in let ks = plist pcomp in expect ")";
  Comp ({ c_name = n; c_id = i; c_encid = e; c_src = s; c_ref = r; c_math = m; c_vars = vs; c_resets = rs }, ks)
let peqv () =
  expect "("; expect "E";
  let p1 = path (next ()) in let v1 = nat_of_int (int_of_string (next ())) in
  let p2 = path (next ()) in let v2 = nat_of_int (int_of_string (next ())) in
  let mid = str () in let cid = str () in
  (if peek () <> ")" then ignore (next ()));     (* pubcid: not part of the model *)
  expect ")";
  { e_a = (p1, v1); e_b = (p2, v2); e_mid = mid; e_cid = cid }
let pmodel () =
  expect "("; expect "M";
  let n = str () in let i = str () in let e = str () in
  let us = plist punits in let cs = plist pcomp in let es = plist peqv in expect ")";
  { m_name = n; m_id = i; m_encid = e; m_units = us; m_comps = cs; m_eqv = es }

let rec pxml () =
  expect "(";
  match next () with
  | "t" -> let s = str () in expect ")"; Text s
  | "c" -> expect ")"; Comment
  | "e" ->
    let ns = str () in let nm = str () in
    let attrs = plist (fun () -> expect "("; expect "a"; let a = str () in let b = str () in let c = str () in expect ")";
                        { a_ns = a; a_name = b; a_val = c }) in
    let ks = plist pxml in expect ")";
    Elem (ns, nm, attrs, ks)
  | t -> raise (Bad ("xml " ^ t))

let pmathtable () =
  plist (fun () -> expect "("; expect "K"; let k = str () in
          let v = if peek () = "X" then (ignore (next ()); None) else Some (plist pxml) in
          expect ")"; (k, v))

(* ---- serialisers *)
let hx l = "s" ^ hexencode (implode l)
let rec sxml = function
  | Text s -> "(t " ^ hx s ^ ")"
  | Comment -> "(c)"
  | Elem (ns, nm, attrs, ks) ->
    let ats = List.sort compare (List.map (fun a -> "(a " ^ hx a.a_ns ^ " " ^ hx a.a_name ^ " " ^ hx a.a_val ^ ")") attrs) in
    "(e " ^ hx ns ^ " " ^ hx nm ^ " (" ^ String.concat "" (List.map (fun a -> " " ^ a) ats) ^ " ) ("
    ^ String.concat "" (List.map (fun k -> " " ^ sxml k) ks) ^ " ))"

let ssrc = function None -> "-" | Some i -> "(I " ^ string_of_int (int_of_nat i.is_tag) ^ " " ^ hx i.is_url ^ " " ^ hx i.is_id ^ ")"
let slist f l = "(" ^ String.concat "" (List.map (fun x -> " " ^ f x) l) ^ " )"
let sdef d = "(D " ^ hx d.ud_ref ^ " " ^ hx d.ud_prefix ^ " n" ^ implode d.ud_exp ^ " n" ^ implode d.ud_mult ^ " " ^ hx d.ud_id ^ ")"
let sunits u = "(U " ^ hx u.u_name ^ " " ^ hx u.u_id ^ " " ^ ssrc u.u_src ^ " " ^ hx u.u_ref ^ " " ^ slist sdef u.u_defs ^ ")"
let svar v = "(V " ^ hx v.v_name ^ " " ^ hx v.v_id ^ " " ^ (match v.v_units with None -> "-" | Some n -> hx n) ^ " " ^ hx v.v_init ^ " " ^ hx v.v_iface ^ ")"
let svref = function None -> "-" | Some (VSame n) -> "S " ^ hx n | Some (VOther n) -> "O " ^ hx n
let rec string_of_z z = implode (z_to_string z)
let sreset r = "(R " ^ hx r.r_id ^ " " ^ (match r.r_order with None -> "-" | Some z -> string_of_z z) ^ " " ^ svref r.r_var ^ " " ^ svref r.r_test
               ^ " " ^ hx r.r_tv ^ " " ^ hx r.r_tv_id ^ " " ^ hx r.r_rv ^ " " ^ hx r.r_rv_id ^ ")"
let rec scomp (Comp (s, ks)) =
  "(C " ^ hx s.c_name ^ " " ^ hx s.c_id ^ " " ^ hx s.c_encid ^ " " ^ ssrc s.c_src ^ " " ^ hx s.c_ref ^ " " ^ hx s.c_math
  ^ " " ^ slist svar s.c_vars ^ " " ^ slist sreset s.c_resets ^ " " ^ slist scomp ks ^ ")"
let spath p = if p = [] then "-" else String.concat "." (List.map (fun n -> string_of_int (int_of_nat n)) p)
let seqv e = "(E " ^ spath (fst e.e_a) ^ " " ^ string_of_int (int_of_nat (snd e.e_a)) ^ " " ^ spath (fst e.e_b) ^ " " ^ string_of_int (int_of_nat (snd e.e_b))
             ^ " " ^ hx e.e_mid ^ " " ^ hx e.e_cid ^ ")"
let smodel m = "(M " ^ hx m.m_name ^ " " ^ hx m.m_id ^ " " ^ hx m.m_encid ^ " " ^ slist sunits m.m_units ^ " " ^ slist scomp m.m_comps ^ " " ^ slist seqv m.m_eqv ^ ")"
let sissues l = "n=" ^ string_of_int (List.length l)
                ^ String.concat "" (List.map (fun (lv, r) -> " " ^ (match lv with LError -> "E" | LWarning -> "W" | LMessage -> "M") ^ ":" ^ implode r) l)

(* ---- environment *)
let min_normal = 2.2250738585072014e-308
let make_env table =
  { show15 = (fun x -> let f = float_of_string (implode x) in
                        if Float.is_nan f then explode "nan" else explode (Printf.sprintf "%.15g" f));
    to_double = (fun s -> match float_of_string_opt (implode s) with
                          | None -> None
                          | Some f -> if Float.is_nan f || Float.is_integer f && false then None
                                      else if Float.abs f = Float.infinity then None
                                      else if f <> 0.0 && Float.abs f < min_normal then None
                                      else Some (explode (Printf.sprintf "%.17g" f)));
    show_int = z_to_string;
    norm_math = (fun s -> match List.assoc_opt s table with
        | Some v -> v
        | None ->
          (* a math string the MODEL produced (load: the math_text of each element, each followed by a newline):
             read the elements back *)
          let str = implode s in
          if String.length str >= 3 && String.sub str 0 3 = "(e " then begin
            let saved_t = !toks and saved_p = !posn in
            let lines = List.filter (fun l -> l <> "") (String.split_on_char '\n' str) in
            let r = (try Some (List.map (fun l -> set_input l; pxml ()) lines) with Bad _ -> None) in
            toks := saved_t; posn := saved_p; r
          end else raise (Bad ("math string not in table: " ^ str)));
    math_text = (fun x -> explode (sxml x)) }

let b2s b = if b then "1" else "0"

let is_empty_model m = m.m_name = [] && m.m_id = [] && m.m_encid = [] && m.m_units = [] && m.m_comps = [] && m.m_eqv = []

let loads e x =
  let (m, is) = load1x e true true true false x in
  let variant tag fi fd =
    let (m0, is0) = load1x e true fi fd false x in
    if m0 = m && is0 = is then [tag ^ "=="] else [ "LI" ^ tag ^ "=" ^ sissues is0; "LM" ^ tag ^ "=" ^ smodel m0 ] in
  let (ms, iss) = load1x e true true true true x in
  [ "LI=" ^ sissues is; "LM=" ^ smodel m ] @ variant "0" false false @ variant "i" true false @ variant "d" false true
  @ [ "SI=" ^ sissues iss; "SE=" ^ b2s (is_empty_model ms) ]

let bit s i = s.[i] = '1'

let run_model line table =
  (* line = "<bits> <ENT>" *)
  let k = String.index line ' ' in
  let bits = String.sub line 0 k in
  let rest = String.sub line (k + 1) (String.length line - k - 1) in
  set_input rest;
  let m = pmodel () in
  let e = make_env table in
  let v = if bit bits 0 then V11 else V10 in
  let st = { is_priv_first = bit bits 1; is_none = bit bits 2; is_pub_out = bit bits 3; is_priv_out = bit bits 4 } in
  let cm = bit bits 5 and us = bit bits 6 and hoist = bit bits 7 in
  let pt = print_tree e m in
  let ex = "EX=" ^ b2s (expressible_1xb e v m) ^ b2s (printableb e true m) ^ b2s (no_imports m) ^ b2s (no_hierarchy m)
           ^ b2s (no_connections m) ^ b2s (conv_ok pt) in
  let cn = "CN=" ^ smodel (canon e m) in
  match print_model e true m with
  | None -> String.concat "\t" [ex; "TX=NONE"; cn]
  | Some _ ->
    let (mcpos, rrpos) = (match String.split_on_char '-' bits with
        | [_; a; b] -> (nat_of_int (int_of_string a), nat_of_int (int_of_string b))
        | _ -> (O, O)) in
    let x = to1x v (fun _ -> st) cm us hoist mcpos rrpos e m in
    String.concat "\t" ([ex; "TX=" ^ sxml x] @ loads e x @ [cn])

let rec all_math f = function
  | Elem (ns, nm, _, ks) as x ->
    (if ns = explode "http://www.w3.org/1998/Math/MathML" && nm = explode "math" then f x else true) && List.for_all (all_math f) ks
  | _ -> true

let run_doc line table =
  set_input line;
  let x = pxml () in
  let e = make_env table in
  String.concat "\t" (loads e x @ ["MS=" ^ b2s (all_math math_in_scope x)])

(* ---- the namespace-declaration layer (MathNsDefs): N ( <nsx>* )  ->  NM <TAB> raw form of each stored math *)
let rec pnxml () =
  expect "(";
  match next () with
  | "t" -> let s = str () in expect ")"; NText s
  | "n" ->
    let p = str () in let ns = str () in let nm = str () in
    let decls = plist (fun () -> expect "("; expect "d"; let a = str () in let b = str () in expect ")"; (a, b)) in
    let attrs = plist (fun () -> expect "("; expect "a"; let a = str () in let b = str () in let c = str () in let d = str () in expect ")";
                        { nt_prefix = a; nt_ns = b; nt_name = c; nt_val = d }) in
    let ks = plist pnxml in expect ")";
    NElem (p, ns, nm, decls, attrs, ks)
  | t -> raise (Bad ("nxml " ^ t))

let qname p n = if p = [] then implode n else implode p ^ ":" ^ implode n
let rec raw = function
  | NText s -> "(t s" ^ hexencode (String.trim (implode s)) ^ ")"
  | NComment -> "(c)"
  | NElem (p, _, nm, decls, attrs, ks) ->
    let ds = List.sort compare (List.map (fun (a, b) -> "s" ^ hexencode ((if a = [] then "xmlns" else "xmlns:" ^ implode a) ^ "=" ^ implode b)) decls) in
    let ats = List.sort compare (List.map (fun a -> "s" ^ hexencode (qname a.nt_prefix a.nt_name ^ "=" ^ implode a.nt_val)) attrs) in
    "(r s" ^ hexencode (qname p nm) ^ " (" ^ String.concat "" (List.map (fun x -> " " ^ x) ds) ^ " ) ("
    ^ String.concat "" (List.map (fun x -> " " ^ x) ats) ^ " ) (" ^ String.concat "" (List.map (fun k -> " " ^ raw k) ks) ^ " ))"

let run_ns line =
  set_input line;
  let ms = plist pnxml in
  (* "!1x": the instance of C14_stored_math_no_1x_declaration fails; "!tree": the declaration layer and the tree layer
     (Load1xDefs.rewrite_math on the erased element) disagree although the element is in the tree layer's scope *)
  String.concat "\t" ("NM" :: List.map (fun m ->
      let s = stored_math m in
      (if no_1x_decl s then "" else "!1x ")
      ^ (if math_in_scope (erase m) && erase s <> rewrite_math (erase m) then "!tree " else "") ^ raw s) ms)

let () =
  let ic = open_in Sys.argv.(1) in
  (try
     while true do
       let line = input_line ic in
       (try
          let kind = if String.length line > 0 then line.[0] else ' ' in
          let body = if String.length line > 2 then String.sub line 2 (String.length line - 2) else "" in
          let (main, tab) = (match String.index_opt body '\t' with
              | None -> (body, "( )")
              | Some k -> (String.sub body 0 k, String.sub body (k + 1) (String.length body - k - 1))) in
          set_input tab;
          let table = pmathtable () in
          print_endline (match kind with
              | 'M' -> run_model main table
              | 'D' -> run_doc main table
              | 'N' -> run_ns main
              | _ -> "SKIP")
        with Bad s -> print_endline ("BAD(" ^ s ^ ")")
           | Stack_overflow -> print_endline "STACK"
           | Not_found -> print_endline "BAD(not found)"
           | Failure s -> print_endline ("FAIL(" ^ s ^ ")"))
     done
   with End_of_file -> ());
  close_in ic
