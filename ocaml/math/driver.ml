(* OCaml side of the C01 MathML correspondence.  Glue only: parsing of the case format, printing of trees as
   XML text, one line per case.  All property logic (val_math, ana, the enumerator) is the extracted model.

   driver eval <cases>           each line: a tree in prefix form (see parse below) -> "val=<rules|-> ana=<ok|site>"
   driver enum <depth> <maxlen> <mod>
                                 enumerates MathDefs.trees depth maxlen in both contexts; prints
                                 "A <hex of xml body> val=- ana=..."   for every tree the model's validator accepts
                                 "R <hex of xml body> val=... ana=..." for every <mod>-th rejected tree
                                 "# total=... accepted=... gaps=..."   last line *)
open Math_model

let explode s = List.init (String.length s) (String.get s)
let implode l = String.of_seq (List.to_seq l)
let hexdecode h =
  if h = "-" then "" else
  let n = String.length h / 2 in
  String.init n (fun i -> Char.chr (int_of_string ("0x" ^ String.sub h (2 * i) 2)))
let hexencode s =
  let b = Buffer.create (2 * String.length s) in
  String.iter (fun c -> Buffer.add_string b (Printf.sprintf "%02x" (Char.code c))) s;
  Buffer.contents b

(* prefix form:  E <ns> <name> <nattrs> (<ns> <name> <value>)* <nkids> <kid>*  |  T <text>  |  C <text>
   every string hex-encoded, "-" for the empty string *)
let parse (toks : string array) : xml =
  let pos = ref 0 in
  let nxt () = let t = toks.(!pos) in incr pos; t in
  let str () = explode (hexdecode (nxt ())) in
  let rec node () =
    match nxt () with
    | "T" -> Text (str ())
    | "C" -> Comment (str ())
    | "E" ->
      let ns = str () in
      let name = str () in
      let na = int_of_string (nxt ()) in
      let attrs = List.init na (fun _ -> let a = str () in let b = str () in let c = str () in ((a, b), c)) in
      let nk = int_of_string (nxt ()) in
      let kids = List.init nk (fun _ -> node ()) in
      Elem (ns, name, attrs, kids)
    | t -> failwith ("bad token " ^ t)
  in
  node ()

let escape s =
  let b = Buffer.create (String.length s) in
  String.iter (function '&' -> Buffer.add_string b "&amp;" | '<' -> Buffer.add_string b "&lt;" | '>' -> Buffer.add_string b "&gt;"
                      | '"' -> Buffer.add_string b "&quot;" | c -> Buffer.add_char b c) s;
  Buffer.contents b

let mathml_ns = implode mATHML_NS
let cellml_ns = implode cELLML_2_0_NS

let rec to_xml (b : Buffer.t) (x : xml) : unit =
  match x with
  | Text s -> Buffer.add_string b (escape (implode s))
  | Comment s -> Buffer.add_string b ("<!--" ^ implode s ^ "-->")
  | Elem (ns, name, attrs, kids) ->
    let name = implode name in
    Buffer.add_string b ("<" ^ name);
    if implode ns <> mathml_ns then Buffer.add_string b (" xmlns=\"" ^ escape (implode ns) ^ "\"");
    List.iter (fun ((ans, an), av) ->
        let p = if implode ans = cellml_ns then "cellml:" else "" in
        Buffer.add_string b (" " ^ p ^ implode an ^ "=\"" ^ escape (implode av) ^ "\"")) attrs;
    if kids = [] then Buffer.add_string b "/>"
    else begin
      Buffer.add_string b ">";
      List.iter (to_xml b) kids;
      Buffer.add_string b ("</" ^ name ^ ">")
    end

let body_of (root : xml) : string =
  let b = Buffer.create 256 in
  (match root with Elem (_, _, _, kids) -> List.iter (to_xml b) kids | _ -> ());
  Buffer.contents b

let verdict (root : xml) : string * string * bool * bool =
  let v = val_math_env std_vars std_units root in
  let a = ana_math_env std_vars root in
  let vs = if v = [] then "-" else String.concat "," (List.map (fun r -> implode (rule_name r)) v) in
  let as_, ok = match a with Ok _ -> "ok", true | Crash s -> implode (site_name s), false in
  (vs, as_, v = [], ok)

let rec nat_of_int n = if n <= 0 then O else S (nat_of_int (n - 1))

let () =
  match Sys.argv.(1) with
  | "eval" ->
    let ic = open_in Sys.argv.(2) in
    (try
       while true do
         let line = input_line ic in
         let toks = Array.of_list (List.filter (fun t -> t <> "") (String.split_on_char ' ' line)) in
         let root = parse toks in
         let (vs, as_, _, _) = verdict root in
         Printf.printf "val=%s ana=%s\n" vs as_
       done
     with End_of_file -> ());
    close_in ic
  | "enum" ->
    let d = int_of_string Sys.argv.(2) and ml = int_of_string Sys.argv.(3) and md = int_of_string Sys.argv.(4) in
    let ts = trees (nat_of_int d) (nat_of_int ml) in
    let total = ref 0 and acc = ref 0 and gaps = ref 0 and rej = ref 0 in
    List.iter (fun e ->
        List.iter (fun root ->
            incr total;
            let (vs, as_, vok, aok) = verdict root in
            if vok then begin
              incr acc;
              if not aok then incr gaps;
              Printf.printf "A %s val=%s ana=%s\n" (hexencode (body_of root)) vs as_
            end else begin
              incr rej;
              if !rej mod md = 0 then Printf.printf "R %s val=%s ana=%s\n" (hexencode (body_of root)) vs as_
            end) (in_contexts e)) ts;
    Printf.printf "# total=%d accepted=%d gaps=%d\n" !total !acc !gaps
  | _ -> prerr_endline "usage: driver eval <cases> | enum <depth> <maxlen> <mod>"; exit 2
