(* OCaml side of the C01 MathML correspondence.  Glue only: parsing of the case format, printing of trees as
   XML text, one line per case.  All property logic (val_math, ana, the enumerator) is the extracted model.

   driver eval <cases>           each line: [V <n> (<name> <initial_value>)*] <tree in prefix form (see parse below)>
                                 -> "val=<rules|-> ana=<ok|must:site|may:site> pow=<none|invalid_argument|out_of_range>"
                                 (without the V prefix the environment is MathDefs.std_vars, no initial values)
   driver enum <depth> <maxlen> <mod>
                                 enumerates MathDefs.trees depth maxlen in both contexts; prints
                                 "A <hex of xml body> val=- ana=..."   for every tree the model's validator accepts
                                 "R <hex of xml body> val=... ana=..." for every <mod>-th rejected tree
                                 "# total=... accepted=... gaps=..."   last line *)
open Math_model

let explode s = List.init (String.length s) (String.get s)
let implode l = String.of_seq (List.to_seq l)
let hexdecode h =
  if h = "-" then "" else
  let n = String.length h / 2 in
  String.init n (fun i -> Char.chr (int_of_string ("0x" ^ String.sub h (2 * i) 2)))
let hexencode s =
  let b = Buffer.create (2 * String.length s) in
  String.iter (fun c -> Buffer.add_string b (Printf.sprintf "%02x" (Char.code c))) s;
  Buffer.contents b

(* prefix form:  E <ns> <name> <nattrs> (<ns> <name> <value>)* <nkids> <kid>*  |  T <text>  |  C <text>
   every string hex-encoded, "-" for the empty string *)
let parse_from (toks : string array) (start : int) : xml =
  let pos = ref start in
  let nxt () = let t = toks.(!pos) in incr pos; t in
  let str () = explode (hexdecode (nxt ())) in
  let rec node () =
    match nxt () with
    | "T" -> Text (str ())
    | "C" -> Comment (str ())
    | "E" ->
      let ns = str () in
      let name = str () in
      let na = int_of_string (nxt ()) in
      let attrs = List.init na (fun _ -> let a = str () in let b = str () in let c = str () in ((a, b), c)) in
      let nk = int_of_string (nxt ()) in
      let kids = List.init nk (fun _ -> node ()) in
      Elem (ns, name, attrs, kids)
    | t -> failwith ("bad token " ^ t)
  in
  node ()

let parse toks = parse_from toks 0

let escape s =
  let b = Buffer.create (String.length s) in
  String.iter (function '&' -> Buffer.add_string b "&amp;" | '<' -> Buffer.add_string b "&lt;" | '>' -> Buffer.add_string b "&gt;"
                      | '"' -> Buffer.add_string b "&quot;" | c -> Buffer.add_char b c) s;
  Buffer.contents b

let mathml_ns = implode mATHML_NS
let cellml_ns = implode cELLML_2_0_NS

let rec to_xml (b : Buffer.t) (x : xml) : unit =
  match x with
  | Text s -> Buffer.add_string b (escape (implode s))
  | Comment s -> Buffer.add_string b ("<!--" ^ implode s ^ "-->")
  | Elem (ns, name, attrs, kids) ->
    let name = implode name in
    Buffer.add_string b ("<" ^ name);
    if implode ns <> mathml_ns then Buffer.add_string b (" xmlns=\"" ^ escape (implode ns) ^ "\"");
    List.iter (fun ((ans, an), av) ->
        let p = if implode ans = cellml_ns then "cellml:" else "" in
        Buffer.add_string b (" " ^ p ^ implode an ^ "=\"" ^ escape (implode av) ^ "\"")) attrs;
    if kids = [] then Buffer.add_string b "/>"
    else begin
      Buffer.add_string b ">";
      List.iter (to_xml b) kids;
      Buffer.add_string b ("</" ^ name ^ ">")
    end

let body_of (root : xml) : string =
  let b = Buffer.create 256 in
  (match root with Elem (_, _, _, kids) -> List.iter (to_xml b) kids | _ -> ());
  Buffer.contents b

let verdict (root : xml) : string * string * bool * bool =
  let v = val_math_env_head std_vars std_units root in
  let a = ana_math_env std_vars root in
  let vs = if v = [] then "-" else String.concat "," (List.map (fun r -> implode (rule_name r)) v) in
  let as_, ok = match a with
    | Ok _ -> "ok", true
    | Crash s -> (if site_certain s then "must:" else "may:") ^ implode (site_name s), false in
  (vs, as_, v = [], ok)

let rec nat_of_int n = if n <= 0 then O else S (nat_of_int (n - 1))

let () =
  match Sys.argv.(1) with
  | "eval" ->
    let ic = open_in Sys.argv.(2) in
    (try
       while true do
         let line = input_line ic in
         let toks = Array.of_list (List.filter (fun t -> t <> "") (String.split_on_char ' ' line)) in
         let (vars, ivs, start) =
           if toks.(0) = "V" then begin
             let n = int_of_string toks.(1) in
             let l = List.init n (fun i -> (explode (hexdecode toks.(2 + 2 * i)), explode (hexdecode toks.(3 + 2 * i)))) in
             (List.map fst l, l, 2 + 2 * n)
           end else (std_vars, [], 0) in
         let root = parse_from toks start in
         let v = val_math_env_head vars std_units root in
         let vs = if v = [] then "-" else String.concat "," (List.map (fun r -> implode (rule_name r)) v) in
         let as_ = match ana_math_env vars root with
           | Ok _ -> "ok"
           | Crash s -> (if site_certain s then "must:" else "may:") ^ implode (site_name s) in
         let pw = match pow_math_env vars ivs root with None -> "none" | Some r -> implode (stod_result_name r) in
         let pu = if exponent_unavailable vars ivs root then "1" else "0" in
         Printf.printf "val=%s ana=%s pow=%s pu=%s\n" vs as_ pw pu
       done
     with End_of_file -> ());
    close_in ic
  | "enum" ->
    (* enum <d1|d2|d3> <nleaves> <cap per verdict class> <offset>:  the whole set is evaluated by the model; of each
       verdict class (validator verdict x analyser verdict) at most <cap> members are printed, taken at a regular
       stride starting at <offset> (so that different seeds replay different members on the library) *)
    let nl = nat_of_int (int_of_string Sys.argv.(3)) in
    let cap = int_of_string Sys.argv.(4) and off = int_of_string Sys.argv.(5) in
    let roots = match Sys.argv.(2) with
      | "d1" -> enum_d1 | "d2" -> enum_d2 nl | "d3" -> enum_d3 nl | "ar" -> arity_sweep | _ -> failwith "set" in
    let classes : (string, (string * string * string) list ref * int ref) Hashtbl.t = Hashtbl.create 64 in
    let total = ref 0 and acc = ref 0 and gaps = ref 0 in
    List.iter (fun root ->
        incr total;
        let (vs, as_, vok, aok) = verdict root in
        if vok then incr acc;
        if vok && not aok then incr gaps;
        let key = (if vok then "A " else "R ") ^ (if vok then as_ else vs) in
        let (l, n) = try Hashtbl.find classes key with Not_found -> let e = (ref [], ref 0) in Hashtbl.add classes key e; e in
        incr n;
        l := (body_of root, vs, as_) :: !l) roots;
    let keys = List.sort compare (Hashtbl.fold (fun k _ a -> k :: a) classes []) in
    List.iter (fun key ->
        let (l, n) = Hashtbl.find classes key in
        let arr = Array.of_list (List.rev !l) in
        let cap = if key.[0] = 'R' then max 5 (cap / 4) else cap in   (* rejected classes only tie the validator model: fewer suffice *)
        let stride = max 1 ((!n + cap - 1) / cap) in
        Array.iteri (fun i (b, vs, as_) ->
            if i mod stride = off mod stride then
              Printf.printf "%s %s val=%s ana=%s\n" (String.sub key 0 1) (hexencode b) vs as_) arr) keys;
    Printf.printf "# total=%d accepted=%d gaps=%d classes=%d\n" !total !acc !gaps (List.length keys);
    List.iter (fun key -> let (_, n) = Hashtbl.find classes key in Printf.printf "# class %s : %d\n" key !n) keys
  | _ -> prerr_endline "usage: driver eval <cases> | enum <set> <nleaves> <cap> <offset>"; exit 2
