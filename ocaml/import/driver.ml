(* OCaml side of the C07 correspondence.  argv: <table> <cases>.  Glue only: parsing of the abstract
   documents, bookkeeping of the case script, printing.  No property logic. *)
open Import_model

let explode s = List.init (String.length s) (String.get s)
let implode l = String.of_seq (List.to_seq l)
let rec nat_of_int n = if n <= 0 then O else S (nat_of_int (n - 1))
let name t = if t = "~" then [] else explode t

(* ---- abstract documents: recursive descent over a token list *)
let parse_doc (text : string) : doc =
  let toks = ref (List.filter (fun s -> s <> "") (String.split_on_char ' ' text)) in
  let next () = match !toks with [] -> failwith ("short doc: " ^ text) | t :: r -> toks := r; t in
  let num () = int_of_string (next ()) in
  let rec many n f = if n = 0 then [] else let x = f () in x :: many (n - 1) f in
  let units () =
    match next () with
    | "L" -> let n = name (next ()) in let k = num () in ULocal (n, many k (fun () -> name (next ())))
    | "I" -> let n = name (next ()) in let sid = nat_of_int (num ()) in
      let u = name (next ()) in let r = name (next ()) in UImp (n, sid, u, r)
    | t -> failwith ("units? " ^ t) in
  let rec comp () =
    (match next () with "C" -> () | t -> failwith ("comp? " ^ t));
    let n = name (next ()) in
    let imp = match next () with
      | "-" -> None
      | "i" -> let sid = nat_of_int (num ()) in let u = name (next ()) in let r = name (next ()) in Some ((sid, u), r)
      | t -> failwith ("imp? " ^ t) in
    let ku = num () in
    let used = many ku (fun () -> name (next ())) in
    let kk = num () in
    let kids = many kk comp in
    Comp (n, imp, used, kids) in
  let err () =
    match next () with
    | "eu" -> PEUnits (name (next ()))
    | "ec" -> PEComp (name (next ()))
    | "eo" -> PEOther
    | t -> failwith ("err? " ^ t) in
  match next () with
  | "X" -> NotXml
  | "M" ->
    let n = name (next ()) in
    let nu = num () in let us = many nu units in
    let nc = num () in let cs = many nc comp in
    let ne = num () in let es = many ne err in
    Parsed (es, { m_name = n; m_units = us; m_comps = cs })
  | t -> failwith ("doc? " ^ t)

(* ---- printing *)
let rule_name = function
  | R_MISSING_FILE -> "MISSING_FILE" | R_NULL_MODEL -> "NULL_MODEL" | R_UNDEFINED -> "UNDEFINED"
  | R_ERROR_IMPORTING_UNITS -> "ERROR_IMPORTING_UNITS" | R_CYCLE -> "CYCLE" | R_MISSING_UNITS -> "MISSING_UNITS"
  | R_MISSING_COMPONENT -> "MISSING_COMPONENT" | R_UNRESOLVED_IMPORTS -> "UNRESOLVED_IMPORTS"
  | R_UNDEFINED_MODEL -> "UNDEFINED_MODEL"

let issue_text st m0 (i : issue) =
  let item = match i.i_item with
    | ItUnits (o, n) -> "u:" ^ implode (owner_name st m0 o) ^ "/" ^ implode n
    | ItComp (o, n) -> "c:" ^ implode (owner_name st m0 o) ^ "/" ^ implode n
    | ItImport (_, u) -> "i:" ^ implode u
    | ItModel -> "m"
    | ItNone -> "n" in
  "E:" ^ rule_name i.i_rule ^ "@" ^ item

let issues_text st m0 = "[" ^ String.concat "," (List.rev_map (issue_text st m0) st.issues_rev) ^ "]"

let strip_key k =
  let s = implode k in
  if String.length s > 0 && s.[0] = '/' then String.sub s 1 (String.length s - 1) else "!" ^ s

(* C07_FIXES=pop,nullref switches the model to the repaired code (fixes/C07-*.diff) *)
let fx =
  let e = try Sys.getenv "C07_FIXES" with Not_found -> "" in
  let has w = List.mem w (String.split_on_char ',' e) in
  { fx_pop = has "pop"; fx_nullref = has "nullref"; fx_placeholder_children = has "kids"; fx_cycle_guard = has "cycle" }

(* T:<u|c>:<name>:<url>:<ref> on the origin model object: importSource()->setUrl(url) (every entity that shares the
   ImportSource sees it) and setImportReference(ref) *)
let retarget kind nm url rf (m : model) : model =
  let sid_of =
    let rec in_comps l = match l with
      | [] -> None
      | Comp (n, imp, _, kids) :: r ->
        (match imp with
         | Some ((sid, _), _) when kind = "c" && n = nm -> Some sid
         | _ -> (match in_comps kids with Some s -> Some s | None -> in_comps r)) in
    if kind = "u" then
      List.fold_left (fun acc u -> match acc, u with
          | None, UImp (n, sid, _, _) when n = nm -> Some sid
          | _ -> acc) None m.m_units
    else in_comps m.m_comps in
  match sid_of with
  | None -> m
  | Some sid ->
    let fu u = match u with
      | UImp (n, s, u0, r0) when s = sid -> UImp (n, s, url, (if kind = "u" && n = nm then rf else r0))
      | _ -> u in
    let rec fc c = match c with
      | Comp (n, Some ((s, u0), r0), used, kids) when s = sid ->
        Comp (n, Some ((s, url), (if kind = "c" && n = nm then rf else r0)), used, List.map fc kids)
      | Comp (n, imp, used, kids) -> Comp (n, imp, used, List.map fc kids) in
    { m with m_units = List.map fu m.m_units; m_comps = List.map fc m.m_comps }

let hexdecode h =
  let n = String.length h / 2 in
  String.init n (fun i -> Char.chr (int_of_string ("0x" ^ String.sub h (2 * i) 2)))
let hexencode s = String.concat "" (List.map (fun c -> Printf.sprintf "%02x" (Char.code c)) (explode s))

(* mode "paths": lines "<hex url> <hex base>" -> normalisePath(base), pathFromUrl(url), resolvePath(...) *)
let paths_mode file =
  let ic = open_in file in
  (try while true do
       let l = input_line ic in
       let url, base = match String.split_on_char ' ' l with
         | [u; b] -> explode (hexdecode u), explode (hexdecode b)
         | [u] -> explode (hexdecode u), []
         | _ -> [], [] in
       Printf.printf "%s %s %s\n" (hexencode (implode (normalise_path base))) (hexencode (implode (path_from_url url)))
         (hexencode (implode (import_key url (normalise_path base))))
     done with End_of_file -> ());
  close_in ic

let () =
  if Array.length Sys.argv > 2 && Sys.argv.(1) = "paths" then (paths_mode Sys.argv.(2); exit 0);
  let table = Hashtbl.create 1024 in
  let ic = open_in Sys.argv.(1) in
  (try while true do
       let l = input_line ic in
       match String.split_on_char '\t' l with
       | id :: abs :: _ -> Hashtbl.replace table id abs
       | _ -> ()
     done with End_of_file -> ());
  close_in ic;
  let docs = Hashtbl.create 1024 in
  let doc_of id =
    match Hashtbl.find_opt docs id with
    | Some d -> d
    | None -> let d = parse_doc (Hashtbl.find table id) in Hashtbl.replace docs id d; d in
  let ic = open_in Sys.argv.(2) in
  (try while true do
       let line = input_line ic in
       let fs = ref [] in                      (* (key, doc) *)
       let aliases = ref [] in
       let st = ref empty_state in
       let strict = ref true in
       let origin = ref None in
       let out = Buffer.create 256 in
       let emit s = if Buffer.length out > 0 then Buffer.add_char out ' '; Buffer.add_string out s in
       List.iter (fun step ->
           if step <> "" then
             match String.split_on_char ':' step with
             | ["W"; f; id] ->
               let k = mk_key (explode f) in
               fs := (k, doc_of id) :: List.filter (fun (k', _) -> k' <> k) !fs
             | ["D"; f] ->
               let k = mk_key (explode f) in
               fs := List.filter (fun (k', _) -> k' <> k) !fs
             (* K:<key as spelled>:<docid>  the OS resolves that spelling to a file with this content (- = to none);
                KC forgets all spellings declared by K; M:<dir> is for the C++ side only *)
             | ["K"; f; id] ->
               let k = mk_key (explode f) in
               fs := List.filter (fun (k', _) -> k' <> k) !fs;
               if id <> "-" then (fs := (k, doc_of id) :: !fs; aliases := k :: !aliases)
             | ["KC"] ->
               fs := List.filter (fun (k', _) -> not (List.mem k' !aliases)) !fs; aliases := []
             | ["M"; _] -> ()
             | ["N"; s] -> st := empty_state; strict := (s = "1")
             (* a new importer while the previous one (and its library models) stays alive: for the code as it is
                that is a fresh importer (resolveImports first clears every link of the model) *)
             | ["N2"; s] -> st := empty_state; strict := (s = "1")
             | ["T"; kind; nm; url; rf] ->
               (match !origin with
                | Some m -> origin := Some (retarget kind (explode nm) (name url) (name rf) m)
                | None -> ())
             | ["P"; f] ->
               st := clear_origin_links !st;
               (match List.assoc_opt (mk_key (explode f)) !fs with
                | Some (Parsed (_, m)) -> origin := Some m
                | _ -> origin := None; emit "P=bad")
             | ["R"] ->
               (match !origin with
                | None -> emit "R=-"
                | Some m0 ->
                  (match resolve_imports (fuel_bound !fs !st) !strict !fs !st m0 with
                   | Ok (b, st') ->
                     st := st';
                     let keys = List.sort compare (List.map (fun (k, _) -> strip_key k) st'.lib) in
                     emit (Printf.sprintf "R=%s I=%s L=[%s]" (if b then "1" else "0") (issues_text st' m0)
                             (String.concat "," keys))
                   | Crash -> emit "R=CRASH(null)"
                   | OutOfFuel -> emit "R=CRASH(fuel)"))
             | ["U"] ->
               (match !origin with
                | None -> emit "U=-"
                | Some m0 ->
                  (match has_unresolved_imports fx (scan_fuel !fs !st m0) !st m0 with
                   | Ok b -> emit (if b then "U=1" else "U=0")
                   | Crash -> emit "U=CRASH(null)"
                   | OutOfFuel -> emit "U=CRASH(fuel)"))
             | ["F"] ->
               (match !origin with
                | None -> emit "F=-"
                | Some m0 ->
                  (match flatten_precheck fx (scan_fuel !fs !st m0) !st m0 with
                   | Ok (b, st') -> emit (Printf.sprintf "F=%s I=%s" (if b then "model" else "null") (issues_text st' m0))
                   | Crash -> emit "F=CRASH(null)"
                   | OutOfFuel -> emit "F=CRASH(fuel)"))
             | ["C"] -> st := remove_all_models !st
             | _ -> emit ("BADSTEP(" ^ step ^ ")"))
         (String.split_on_char ' ' line);
       print_string (Buffer.contents out);
       print_newline ()
     done with End_of_file -> ());
  close_in ic
