(* OCaml side of the C03 correspondence.  Glue only: reads cases, calls the extracted model, prints.
   mode "ast":  one AST per line (prefix form, see harness/c03_driver.cpp); output, TAB separated:
        gen_C  gen_Py  safeC  safePy  norm(trC)  norm(trPy)  norm(readC gen_C)|NONE  norm(readPy gen_Py)|NONE
        sitesC  sitesPy      (minimal unsafe sub-ASTs, prefix form, separated by " ;; ")
   mode "scale": "<kind ode|algebraic|nla|external> TAB <name of the unknown's primary variable|-> TAB
                 <name=num/den,text of factor,text of 1/factor;...> TAB <AST of the equation as written>"
                 -> the AST after ScaleDefs.analysed_ast (unit scaling, then NLA -> MINUS / swap), prefix form
   mode "read": "<C text> TAB <Python text>" per line -> "norm(readC text)|NONE TAB norm(readPy text)|NONE" *)
open Gen_model

let explode s = List.init (String.length s) (String.get s)
let implode l = String.of_seq (List.to_seq l)

let read_ast (line : string) : ast =
  let toks = Array.of_list (String.split_on_char ' ' line) in
  let pos = ref 0 in
  let next () = let t = toks.(!pos) in incr pos; t in
  let rec node () : ast =
    let t = next () in
    if t = "_" then Null
    else begin
      let ty = match ty_of_name (explode t) with Some x -> x | None -> failwith ("unknown type " ^ t) in
      let v = next () in
      let v = if v = "-" then "" else String.sub v 1 (String.length v - 1) in
      let l = node () in
      let r = node () in
      Node (ty, explode v, l, r)
    end in
  let a = node () in
  if !pos <> Array.length toks then failwith "trailing tokens";
  a

let one_line s =
  String.concat "\\n" (String.split_on_char '\n' (String.concat "\\t" (String.split_on_char '\t' s)))
let b x = if x then "1" else "0"
let shown t = implode (show_tree (norm t))
let shown_opt = function Some t -> shown t | None -> "NONE"

(* Coq numbers from OCaml ints (glue) *)
let rec pos_of_int n = if n <= 1 then XH else if n land 1 = 1 then XI (pos_of_int (n lsr 1)) else XO (pos_of_int (n lsr 1))
let z_of_int n = if n = 0 then Z0 else if n > 0 then Zpos (pos_of_int n) else Zneg (pos_of_int (- n))

let scale_case line =
  match String.split_on_char '\t' line with
  | [kind; unknown; factors; astl] ->
    let tbl = Hashtbl.create 16 in
    List.iter (fun ent ->
        if ent <> "" then
          match String.split_on_char '=' ent with
          | name :: rest ->
            (match String.split_on_char ',' (String.concat "=" rest) with
             | [frac; t; ti] ->
               (match String.split_on_char '/' frac with
                | [n; d] -> Hashtbl.replace tbl name (int_of_string n, int_of_string d, t, ti)
                | _ -> failwith "bad fraction")
             | _ -> failwith "bad factor entry")
          | [] -> ())
      (String.split_on_char ';' factors);
    let get v = try Hashtbl.find tbl (implode v) with Not_found -> (1, 1, "1", "1") in
    let env = { sf = (fun v -> let (n, d, _, _) = get v in { qnum = z_of_int n; qden = pos_of_int d });
                sf_text = (fun v -> let (_, _, t, _) = get v in explode t);
                sf_inv_text = (fun v -> let (_, _, _, ti) = get v in explode ti) } in
    let k = match kind with "ode" -> KOde | "nla" -> KNla | "external" -> KExternal | _ -> KAlgebraic in
    implode (ast_line (analysed_ast env k (explode unknown) (read_ast astl)))
  | _ -> "BADLINE"

let () =
  let mode = Sys.argv.(1) in
  let ic = open_in Sys.argv.(2) in
  (try
     while true do
       let line = input_line ic in
       (match mode with
        | "ast" ->
          let a = read_ast line in
          let gc = gen_C a and gp = gen_Py a in
          let sites l p = String.concat " ;; " (List.map (fun x -> implode (ast_line x)) (unsafe_sites l p a)) in
          Printf.printf "%s\t%s\t%s\t%s\t%s\t%s\t%s\t%s\t%s\t%s\n" (one_line (implode gc)) (one_line (implode gp))
            (b (safeC a)) (b (safePy a)) (shown (trC a)) (shown (trPy a))
            (shown_opt (readC gc)) (shown_opt (readPy gp)) (sites LC profile_C) (sites LPy profile_Py)
        | "scale" -> print_endline (scale_case line)
        | "read" ->
          (match String.split_on_char '\t' line with
           | [c; p] -> Printf.printf "%s\t%s\n" (shown_opt (readC (explode c))) (shown_opt (readPy (explode p)))
           | _ -> print_endline "BADLINE")
        | _ -> failwith "unknown mode")
     done
   with End_of_file -> ());
  close_in ic
