(* OCaml side of the C18 correspondence: one line per case (formats: harness/c18_driver.cpp).
   Glue only: parsing, int <-> nat, printing.  No property logic. *)
open Equiv_model

let explode s = List.init (String.length s) (String.get s)
let implode l = String.of_seq (List.to_seq l)
let rec nat_of_int i = if i <= 0 then O else S (nat_of_int (i - 1))
let rec int_of_nat = function O -> 0 | S k -> 1 + int_of_nat k
let split c s = String.split_on_char c s
let ob = function Some true -> "1" | Some false -> "0" | None -> "F"   (* F = the model ran out of fuel *)

let key_case f =
  match f with
  | [_; a; b] ->
    (match n_of_hex (explode a), n_of_hex (explode b) with
     | Some x, Some y ->
       let (k1, k2) = pairkey x y in
       Printf.sprintf "%s %s k64=%s" (implode (n_to_hex k1)) (implode (n_to_hex k2)) (implode (n_to_hex (key64 x y)))
     | _ -> "BADCASE")
  | _ -> "BADCASE"

let graph_case f =
  match f with
  | [_; ns; _layout; ops; qs] ->
    let n = int_of_string ns in
    let nn = nat_of_int n in
    let nats = Array.init (n + 1) nat_of_int in
    let parse_op o =
      if o.[0] = 'x' then Expire nats.(int_of_string (String.sub o 1 (String.length o - 1)))
      else match split '-' o with
        | [a; b] -> AddEq (nats.(int_of_string a), nats.(int_of_string b))
        | _ -> failwith "op" in
    let ops = if ops = "-" then [] else List.map parse_op (split ',' ops) in
    let g = freeze nn (build ops) in
    let qs = if qs = "-" then [] else
        List.map (fun q -> match split ':' q with
            | [a; b] -> (nats.(int_of_string a), nats.(int_of_string b))
            | _ -> failwith "query") (split ',' qs) in
    let cached = model_queries heap_addr nn g qs in
    let answers = List.map2 (fun (a, b) c ->
        ob (has_equivalent nn g a (Some b) true) ^ ob (has_equivalent nn g a (Some b) false) ^ ob c) qs cached in
    let buf = Buffer.create 256 in
    Buffer.add_string buf (String.concat "," answers);
    Buffer.add_string buf " adj=";
    for k = 0 to n - 1 do
      if g.alive nats.(k) then begin
        let l = List.sort compare (List.map int_of_nat (eqv g nats.(k))) in
        Buffer.add_string buf (Printf.sprintf "%d:%s;" k (String.concat "." (List.map string_of_int l)))
      end
    done;
    Buffer.contents buf
  | _ -> "BADCASE"

let adj_string n nats g =
  let buf = Buffer.create 256 in
  Buffer.add_string buf " adj=";
  for k = 0 to n - 1 do
    if g.alive nats.(k) then begin
      let l = List.sort compare (List.map int_of_nat (eqv g nats.(k))) in
      Buffer.add_string buf (Printf.sprintf "%d:%s;" k (String.concat "." (List.map string_of_int l)))
    end
  done;
  Buffer.contents buf

(* H: a history of edits and questions; every "?a:b" becomes the four Ask events of the model *)
let history_case f =
  match f with
  | _ :: ns :: _layout :: evs :: _ ->
    let n = int_of_string ns in
    let nn = nat_of_int n in
    let nats = Array.init (n + 1) nat_of_int in
    let num s = nats.(int_of_string s) in
    let parse ev =
      let rest = String.sub ev 1 (String.length ev - 1) in
      (* "!": a question to an OLD AnalyserModel object: not modelled (judged by the snapshot rule in the check);
         "A": take a new AnalyserModel = an edit that changes nothing (the model empties its cache at every Edit) *)
      if ev.[0] = '!' then []
      else if ev.[0] = 'A' || ev.[0] = 'P' then [Edit Reparse]
      else if ev.[0] = 'm' || ev.[0] = 'c' || ev.[0] = 'M' || ev.[0] = 'C' then
        (match split ':' rest with [a; b] -> [Edit (IdOp (num a, num b))] | _ -> failwith "idop")
      else if String.contains ev '=' then
        (match split '=' ev with [a; b] -> [Edit (AddEq4 (num a, num b))] | _ -> failwith "add4")
      else if ev.[0] = '?' then
        (match split ':' rest with
         | [a; b] -> List.map (fun k -> Ask (k, num a, num b)) [QIndirect; QDirect; QUtil; QCached]
         | _ -> failwith "ask")
      else if ev.[0] = 'x' then [Edit (Expire (num rest))]
      else if ev.[0] = 'r' then [Edit (RemAll (num rest))]
      else if String.contains ev '/' then
        (match split '/' ev with [a; b] -> [Edit (RemEq (num a, num b))] | _ -> failwith "rem")
      else (match split '-' ev with [a; b] -> [Edit (AddEq (num a, num b))] | _ -> failwith "add") in
    let h = if evs = "-" then [] else List.concat_map parse (split ',' evs) in
    let rs = run_history nn empty_graph [] h in
    let rec groups = function
      | a :: b :: c :: d :: t -> (ob a ^ ob b ^ ob c ^ ob d) :: groups t
      | [] -> []
      | _ -> failwith "answers" in
    String.concat "," (groups rs) ^ adj_string n nats (final_graph nn empty_graph h)
  | _ -> "BADCASE"

let () =
  let ic = open_in Sys.argv.(1) in
  (try
     while true do
       let line = input_line ic in
       let f = split ' ' line in
       let r = try (match f with
           | "K" :: _ -> key_case f
           | "G" :: _ -> graph_case f
           | "H" :: _ -> history_case f
           | _ -> "BADCASE") with e -> "MODELERROR(" ^ Printexc.to_string e ^ ")" in
       print_string r; print_newline ()
     done
   with End_of_file -> ());
  close_in ic
