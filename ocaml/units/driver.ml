(* OCaml side of the C08 correspondence: one line per case.  Glue only: parsing of the case line into the
   Coq [world] value and printing; every verdict comes from the extracted model (Units_model).

   case  := mode nmodels model* [ "@" name1 name2 ]
   model := ("M" | "L") nunits units*          M: a libcellml::Model;  L: parent-less child-less units objects
   units := name "D" nchildren (ref prefix en ed mn md)*  |  name "I" modelindex ref
   prefix "-" is the empty string; exponent = en/ed; log10(multiplier) = mn/md; modelindex -1 = no model attached *)
open Units_model

let explode s = List.init (String.length s) (String.get s)
let implode l = String.of_seq (List.to_seq l)

let rec pos_of_int n = if n = 1 then XH else if n land 1 = 0 then XO (pos_of_int (n lsr 1)) else XI (pos_of_int (n lsr 1))
let z_of_int n = if n = 0 then Z0 else if n > 0 then Zpos (pos_of_int n) else Zneg (pos_of_int (-n))
let rec nat_of_int n = if n <= 0 then O else S (nat_of_int (n - 1))
let q_of n d = q_of_ints (z_of_int n) (pos_of_int d)
let qs q = implode (q_num_string q) ^ "/" ^ implode (q_den_string q)

type tok = { mutable rest : string list }
let next t = match t.rest with [] -> failwith "short case" | x :: r -> t.rest <- r; x
let next_int t = int_of_string (next t)

let parse_units t =
  let name = next t in
  match next t with
  | "D" ->
    let n = next_int t in
    let cs = List.init n (fun _ ->
      let r = next t in
      let p = next t in
      let en = next_int t in let ed = next_int t in
      let mn = next_int t in let md = next_int t in
      { uc_ref = explode r; uc_prefix = explode (if p = "-" then "" else p); uc_exp = q_of en ed; uc_mult = q_of mn md }) in
    (name, Defs cs)
  | "I" ->
    let mj = next_int t in
    let r = next t in
    (name, Import (nat_of_int (if mj < 0 then 9999 else mj), explode r))
  | x -> failwith ("bad units kind " ^ x)

let parse_world t =
  let nm = next_int t in
  List.init nm (fun _ ->
    let kind = next t in
    let nu = next_int t in
    let us = List.init nu (fun _ -> parse_units t) in
    (kind, us))

let rb = function Ok true -> "1" | Ok false -> "0" | OutOfFuel -> "F" | Crash -> "X"
let rf = function Ok FZero -> "Z" | Ok (FPow q) -> qs q | OutOfFuel -> "F" | Crash -> "X"

let () =
  if Sys.argv.(1) = "--fixes" then begin
    (* the setting of the model's current_fixes, as the three characters argv[2] takes *)
    let c b = if b then "1" else "0" in
    print_endline (c current_fixes.fx_import ^ c current_fixes.fx_std ^ c current_fixes.fx_pop);
    exit 0
  end;
  let ic = open_in Sys.argv.(1) in
  (* argv[2] (optional) = three characters, fx_import fx_std fx_pop, e.g. "110"; default: the model's current_fixes *)
  let fx = if Array.length Sys.argv > 2 then
      { fx_import = Sys.argv.(2).[0] = '1'; fx_std = Sys.argv.(2).[1] = '1'; fx_pop = Sys.argv.(2).[2] = '1' }
    else current_fixes in
  (try
     while true do
       let line = input_line ic in
       let t = { rest = String.split_on_char ' ' (String.trim line) } in
       let mode = next t in
       let models = parse_world t in
       let w : world = List.map (fun (_, us) -> List.map (fun (n, d) -> (explode n, d)) us) models in
       let fuel = fuel_for w in
       let tops = List.concat (List.mapi (fun mi (_, us) -> List.map (fun (n, _) -> (nat_of_int mi, explode n)) us) models) in
       let b = Buffer.create 4096 in
       (match mode with
        | "P" ->
          let opts = List.map (fun u -> Some u) tops @ [None] in
          List.iter (fun a -> List.iter (fun c ->
            Buffer.add_string b (rb (compatible fx fuel w a c) ^ "," ^ rb (equivalent fx fuel w a c) ^ "," ^
                                 rf (scaling_factor fx fuel w a c) ^ " ")) opts) opts;
          Buffer.add_string b "| ";
          List.iter (fun (mi, n) ->
            let d = is_defined fx fuel w mi n in
            let mp = if d = Ok true then
                (match define_units_map fx fuel w (mi, n) with
                 | Ok m -> let l = List.sort compare (List.map (fun (k, v) -> implode k ^ "=" ^ qs v) m) in
                   if l = [] then "{}" else String.concat "," l
                 | OutOfFuel -> "F" | Crash -> "X")
              else "-" in
            let mu = match mult_go fx fuel w mi n with
              | Ok (Some q) -> qs q | Ok None -> "N" | OutOfFuel -> "F" | Crash -> "X" in
            Buffer.add_string b ("d" ^ rb d ^ "b" ^ rb (is_base fuel w mi n) ^ ";" ^ mp ^ ";" ^ mu ^ " ")) tops;
          Buffer.add_string b "| ";
          let names = List.concat (List.mapi (fun mi (k, us) -> if mi = 0 || k = "L" then List.map fst us else []) models) in
          List.iter (fun n1 -> List.iter (fun n2 ->
            Buffer.add_string b (match val_equiv fuel w O (explode n1) (explode n2) with
              | Ok (s, m) -> (if s then "1" else "0") ^ "," ^ qs m ^ " "
              | OutOfFuel -> "F " | Crash -> "X ")) names) names
        | "VB" | "AB" ->
          (* batched public routes: per name the analyser's own scale and map, per ordered pair the validator's (status,
             multiplier) and the analyser's verdict *)
          let names = List.concat (List.mapi (fun mi (k, us) -> if mi = 0 || k = "L" then List.map fst us else []) models) in
          List.iter (fun n ->
            let n' = explode n in
            let sc = match ana_scale fuel w O n' with Ok q -> qs q | OutOfFuel -> "F" | Crash -> "X" in
            let mp = match ana_map fuel w O n' with
              | Ok m -> let l = List.sort compare (List.filter_map (fun (k, v) ->
                          if qzero v || implode k = "dimensionless" then None else Some (implode k ^ "=" ^ qs v)) m) in
                if l = [] then "{}" else String.concat "," l
              | OutOfFuel -> "F" | Crash -> "X" in
            Buffer.add_string b (sc ^ ";" ^ mp ^ " ")) names;
          Buffer.add_string b "| ";
          List.iter (fun n1 -> List.iter (fun n2 ->
            let v = match val_equiv fuel w O (explode n1) (explode n2) with
              | Ok (s, m) -> (if s then "1" else "0") ^ "," ^ qs m | OutOfFuel -> "F" | Crash -> "X" in
            Buffer.add_string b (v ^ ";" ^ rb (ana_equiv fuel w O (explode n1) (explode n2)) ^ " ")) names) names
        | "V" | "A" ->
          ignore (next t);
          let n1 = explode (next t) in
          let n2 = explode (next t) in
          let find n = List.find_opt (fun (_, nm) -> nm = n) tops in
          (match mode with
           | "V" ->
             Buffer.add_string b (match val_equiv fuel w O n1 n2 with
               | Ok (s, m) -> "status=" ^ (if s then "1" else "0") ^ " mult=" ^ qs m
               | OutOfFuel -> "F" | Crash -> "X")
           | _ ->
             Buffer.add_string b ("same=" ^ rb (ana_equiv fuel w O n1 n2) ^
                                  " s1=" ^ (match ana_scale fuel w O n1 with Ok q -> qs q | OutOfFuel -> "F" | Crash -> "X") ^
                                  " s2=" ^ (match ana_scale fuel w O n2 with Ok q -> qs q | OutOfFuel -> "F" | Crash -> "X") ^
                                  " factor=" ^ rf (scaling_factor fx fuel w (find n1) (find n2)) ^
                                  " factor_rev=" ^ rf (scaling_factor fx fuel w (find n2) (find n1))))
        | m -> failwith ("bad mode " ^ m));
       print_endline (Buffer.contents b)
     done
   with End_of_file -> ());
  close_in ic
