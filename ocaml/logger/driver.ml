(* OCaml side of the C15 correspondence: one line per case. Glue only: parsing and printing, no property logic.
   R <int>                          -> heading / url of the rule value (THROW = std::out_of_range from map::at)
   H init | H <setter> <null> <type> -> holder after the setter: type, stored C++ type, the 8 accessors
   O <op> ...  (ops separated by blanks or commas: a{E|W|M}<id> | c | r<index>)
                                    -> logger state after the trace, what the accessors return, inv / last flags *)
open Logger_model

let explode s = List.init (String.length s) (String.get s)
let implode l = String.of_seq (List.to_seq l)
let rec nat_of_int n = if n <= 0 then O else S (nat_of_int (n - 1))
let rec int_of_nat = function O -> 0 | S n -> 1 + int_of_nat n
let hexencode s = String.concat "" (List.map (fun c -> Printf.sprintf "%02x" (Char.code c)) (explode s))
let nth_opt l i = try Some (List.nth l i) with _ -> None
let ints l = if l = [] then "-" else String.concat "," (List.map (fun n -> string_of_int (int_of_nat n)) l)
let level_char = function LError -> "E" | LWarning -> "W" | LMessage -> "M"

let rule_line v =
  let show = function Some s -> "s" ^ hexencode (implode s) | None -> "THROW" in
  if v < 0 || v > 100000 then Printf.sprintf "R %d rr=%d h=THROW u=THROW" v v
  else
    let r = nat_of_int v in
    Printf.sprintf "R %d rr=%d h=%s u=%s" v v (show (rt_heading r)) (show (rt_url r))

let holder_line toks =
  let h, stored =
    match toks with
    | ["init"] -> (holder_init, None)
    | [s; isnull; ty] ->
      let n = List.nth all_snames (int_of_string s) in
      let t = List.nth all_etypes (int_of_string ty) in
      let c = { c_name = n; c_obj = (if isnull = "1" then None else Some (nat_of_int 1)); c_type = t; c_fresh = nat_of_int 2 } in
      let h = apply_setter c holder_init in
      (h, h.h_item.p_obj)
    | _ -> failwith "bad holder case" in
  let acc = String.concat "" (List.map (fun a ->
      match read tree_math_fixed a h with
      | None -> "0"
      | Some x -> if Some x = stored then "1" else "X") all_accessors) in
  Printf.sprintf "H t=%d any=%s acc=%s" (int_of_nat (etype_index h.h_type)) (implode (pkind_cxx h.h_item.p_kind)) acc

let parse_op tok =
  match tok.[0] with
  | 'a' ->
    let lv = (match tok.[1] with 'E' -> LError | 'W' -> LWarning | _ -> LMessage) in
    OAdd { i_level = lv; i_id = nat_of_int (int_of_string (String.sub tok 2 (String.length tok - 2))) }
  | 'c' -> ORemoveAll
  | 'r' -> ORemoveError (nat_of_int (int_of_string (String.sub tok 1 (String.length tok - 1))))
  | _ -> failwith ("bad op " ^ tok)

let show_access = function ANull -> "n" | AIssue x -> string_of_int (int_of_nat x.i_id) | AThrows -> "T"

let probe count get =
  let lim = if count < 40 then count else 40 in
  String.concat "," (List.init (lim + 1) (fun i -> let idx = if i = lim then count else i in show_access (get (nat_of_int idx))))

let ops_line toks =
  let toks = List.concat_map (String.split_on_char ',') toks in
  let toks = List.filter (fun t -> t <> "" && t <> "-") toks in
  let ops = List.map parse_op toks in
  let ((s, n), st) = run_ops_upto ops empty_logger O in
  let (_, last) = run_checked ops empty_logger in
  let lv = String.concat "" (List.map (fun x -> level_char x.i_level) s.issues) in
  let ic = int_of_nat (issue_count s) in
  let cnt l = int_of_nat (level_count l s) in
  Printf.sprintf "O n=%d st=%s lv=%s ids=%s E=%s W=%s M=%s cnt=%d,%d,%d,%d i=%s e=%s w=%s m=%s inv=%s last=%s"
    (int_of_nat n) (match st with StOk -> "OK" | StThrows -> "THROW" | StUndefined -> "UB")
    (if lv = "" then "-" else lv) (ints (List.map (fun x -> x.i_id) s.issues))
    (ints s.errs) (ints s.warns) (ints s.msgs) ic (cnt LError) (cnt LWarning) (cnt LMessage)
    (probe ic (get_issue s)) (probe (cnt LError) (get_level LError s)) (probe (cnt LWarning) (get_level LWarning s))
    (probe (cnt LMessage) (get_level LMessage s))
    (if inv_b s then "1" else "0") (if last then "1" else "0")

let () =
  let ic = open_in Sys.argv.(1) in
  (try
     while true do
       let line = input_line ic in
       let toks = List.filter (fun t -> t <> "") (String.split_on_char ' ' line) in
       let out =
         try
           match toks with
           | "R" :: v :: _ -> rule_line (int_of_string v)
           | "H" :: rest -> holder_line rest
           | "O" :: rest -> ops_line rest
           | _ -> "BADCASE"
         with e -> "MODEL-ERROR " ^ Printexc.to_string e in
       print_endline out
     done
   with End_of_file -> ());
  close_in ic
