(* OCaml side of the C10 correspondence.  Glue only: parses the serialised trees (gen/equals_gen.py: ser) of one
   case per line  <script>|<roots>|<queries>|<tree>;<tree>;...  and prints, for five instances of the model,
   one 0/1 per query:  now=.. pinned=.. vc=.. vcu=.. ideal=..   No property logic here.

   The comparison of doubles is a PARAMETER of the Coq model (the theorems assume only that it is an equivalence on the
   values they speak about).  Here it is instantiated by a transcription of utilities.cpp: areNearlyEqual / ulpsDistance
   on the IEEE doubles themselves (the rationals of the trees are dyadic and convert back exactly):
     neq_code = the code as it is: fabs(a-b) <= DBL_EPSILON, else same sign and at most one ulp apart
     neq_ulp  = the same without the absolute test (what the property describes: "within one unit in the last place")
     Qeq_bool = exact equality (inside the extracted equals_ideal)                                                    *)
open Equals_model

let rec float_of_pos = function XH -> 1.0 | XO p -> 2.0 *. float_of_pos p | XI p -> 2.0 *. float_of_pos p +. 1.0
let rec log2_pos = function XH -> 0 | XO p -> 1 + log2_pos p | XI _ -> failwith "denominator is not a power of two"
let float_of_q q =
  let n = match q.qnum with Z0 -> 0.0 | Zpos p -> float_of_pos p | Zneg p -> -. (float_of_pos p) in
  Float.ldexp n (- (log2_pos q.qden))

(* utilities.cpp: ulpsDistance (uint64_t arithmetic) *)
let ulps_distance a b =
  if Float.is_nan a || Float.is_nan b then Int64.minus_one
  else if (Float.abs a = Float.infinity) <> (Float.abs b = Float.infinity) then Int64.minus_one
  else
    let ia = Int64.bits_of_float a and ib = Int64.bits_of_float b in
    if Int64.unsigned_compare ia ib < 0 then Int64.sub ib ia else Int64.sub ia ib

(* utilities.cpp: areNearlyEqual *)
let are_nearly_equal a b =
  if Float.abs (a -. b) <= epsilon_float then true
  else if (a < 0.0) <> (b < 0.0) then false
  else Int64.unsigned_compare (ulps_distance a b) 1L <= 0

let within_one_ulp a b =
  if a = b then true
  else if (a < 0.0) <> (b < 0.0) then false
  else Int64.unsigned_compare (ulps_distance a b) 1L <= 0

let neq_code x y = are_nearly_equal (float_of_q x) (float_of_q y)
let neq_ulp x y = within_one_ulp (float_of_q x) (float_of_q y)

let explode s = List.init (String.length s) (String.get s)
let hexdecode h =
  let n = String.length h / 2 in
  String.init n (fun i -> Char.chr (int_of_string ("0x" ^ String.sub h (2 * i) 2)))

let rec pos_of_int n = if n = 1 then XH else if n land 1 = 0 then XO (pos_of_int (n lsr 1)) else XI (pos_of_int (n lsr 1))
let z_of_int n = if n = 0 then Z0 else if n > 0 then Zpos (pos_of_int n) else Zneg (pos_of_int (-n))

exception Bad of string

let str tok =
  if String.length tok = 0 || tok.[0] <> 's' then raise (Bad ("string token " ^ tok));
  explode (hexdecode (String.sub tok 1 (String.length tok - 1)))

let dbl tok =
  match String.index_opt tok '^' with
  | None -> raise (Bad ("double token " ^ tok))
  | Some k ->
    let m = int_of_string (String.sub tok 0 k) and e = int_of_string (String.sub tok (k + 1) (String.length tok - k - 1)) in
    q_of_me (z_of_int m) (z_of_int e)

(* token stream *)
let toks = ref [||]
let posn = ref 0
let peek () = if !posn < Array.length !toks then !toks.(!posn) else raise (Bad "end of input")
let next () = let t = peek () in incr posn; t
let expect s = let t = next () in if t <> s then raise (Bad ("expected " ^ s ^ " got " ^ t))

let plist p = expect "("; let rec go acc = if peek () = ")" then (ignore (next ()); List.rev acc) else go (p () :: acc) in go []
let popt p = if peek () = "-" then (ignore (next ()); None) else Some (p ())
let rec pisrc () = expect "("; expect "I"; let u = str (next ()) in let i = str (next ()) in expect ")"; { is_url = u; is_id = i }
and pdef () =
  expect "("; expect "D";
  let r = str (next ()) in let p = str (next ()) in let e = dbl (next ()) in let m = dbl (next ()) in let i = str (next ()) in
  expect ")"; { ud_ref = r; ud_prefix = p; ud_exp = e; ud_mult = m; ud_id = i }
and punits () =
  expect "("; expect "U";
  let n = str (next ()) in let i = str (next ()) in let imp = popt pisrc in let r = str (next ()) in let ds = plist pdef in
  expect ")"; { u_name = n; u_id = i; u_imp = imp; u_impref = r; u_defs = ds }
and pvar () =
  expect "("; expect "V";
  let n = str (next ()) in let i = str (next ()) in let u = popt punits in let iv = str (next ()) in let it = str (next ()) in
  expect ")"; { v_name = n; v_id = i; v_units = u; v_init = iv; v_iface = it }
and preset () =
  expect "("; expect "R";
  let i = str (next ()) in let o = z_of_int (int_of_string (next ())) in let v = popt pvar in let t = popt pvar in
  let tv = str (next ()) in let tvid = str (next ()) in let rv = str (next ()) in let rvid = str (next ()) in
  expect ")"; { r_id = i; r_order = o; r_var = v; r_test = t; r_tv = tv; r_tv_id = tvid; r_rv = rv; r_rv_id = rvid }
and pcomp () =
  expect "("; expect "C";
  let n = str (next ()) in let i = str (next ()) in let e = str (next ()) in let m = str (next ()) in
  let imp = popt pisrc in let r = str (next ()) in
  let vs = plist pvar in let rs = plist preset in let ks = plist pcomp in
  expect ")";
  Comp ({ c_name = n; c_id = i; c_encid = e; c_math = m; c_imp = imp; c_impref = r; c_vars = vs; c_resets = rs }, ks)
and pmodel () =
  expect "("; expect "M";
  let n = str (next ()) in let i = str (next ()) in let e = str (next ()) in
  let us = plist punits in let cs = plist pcomp in
  expect ")"; { m_name = n; m_id = i; m_encid = e; m_units = us; m_comps = cs }

let pentity s =
  toks := Array.of_list (List.filter (fun t -> t <> "") (String.split_on_char ' ' s));
  posn := 0;
  if Array.length !toks < 2 then raise (Bad "empty tree");
  match !toks.(1) with
  | "M" -> EModel (pmodel ())
  | "C" -> EComponent (pcomp ())
  | "V" -> EVariable (pvar ())
  | "U" -> EUnits (punits ())
  | "R" -> EReset (preset ())
  | "I" -> EImportSource (pisrc ())
  | k -> raise (Bad ("kind " ^ k))

let () =
  let ic = open_in Sys.argv.(1) in
  (try
     while true do
       let line = input_line ic in
       (try
          match String.split_on_char '|' line with
          | [_; _; qs; trees] ->
            let roots = Array.of_list (List.map pentity (String.split_on_char ';' trees)) in
            let queries = List.filter (fun t -> t <> "") (String.split_on_char ' ' qs) in
            let pairs = List.map (fun q -> match String.split_on_char ',' q with
                | [i; j] -> (roots.(int_of_string i), roots.(int_of_string j))
                | _ -> raise (Bad ("query " ^ q))) queries in
            let run f = String.concat "" (List.map (fun (a, b) -> if f a b then "1" else "0") pairs) in
            Printf.printf "now=%s pinned=%s vc=%s vcu=%s ideal=%s\n"
              (run (eq_entity neq_code flags_now)) (run (eq_entity neq_code flags_repo_pinned))
              (run (eq_entity neq_code flags_fixed)) (run (eq_entity neq_ulp flags_fixed)) (run equals_ideal)
          | _ -> print_endline "BADCASE"
        with Bad m -> Printf.printf "BAD(%s)\n" m
           | Invalid_argument m -> Printf.printf "BAD(%s)\n" m
           | Failure m -> Printf.printf "BAD(%s)\n" m)
     done
   with End_of_file -> ());
  close_in ic
