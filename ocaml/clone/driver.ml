(* OCaml side of the C11 correspondence.  Glue only: parses identity dumps into the Coq records, calls the
   extracted clone_* / apply_* / content_* functions, prints identity dumps.  No property logic.

   One case per line:  <n0>|<flags: 5 x 0/1 = order encid isrc eqids ext>|<identity dump of the original>|<ext>|<mutation>
     ext      : space separated  <oid>:o  (parent-less) or <oid>:<i.j.k> (index stack under its own root)
     mutation : empty or an S-expression (Name target args..), target = @oid or $k (k-th distinct oid >= n0 in the
                text of the clone's dump)
   Output (TAB separated): clone dump | content of original | content of clone [| original after | clone after]
     or the single token CRASH when the model says the library crashes. *)
open Clone_model

let explode s = List.init (String.length s) (String.get s)
let implode l = String.of_seq (List.to_seq l)
let rec nat_of_int n = if n <= 0 then O else S (nat_of_int (n - 1))
let rec int_of_nat = function O -> 0 | S n -> 1 + int_of_nat n
let hexdecode h =
  let n = String.length h / 2 in
  String.init n (fun i -> Char.chr (int_of_string ("0x" ^ String.sub h (2 * i) 2)))
let hexencode s = String.concat "" (List.map (fun c -> Printf.sprintf "%02x" (Char.code c)) (explode s))

(* ---- S-expressions *)
type sexp = At of string | Li of sexp list

let parse (s : string) : sexp =
  let n = String.length s in
  let pos = ref 0 in
  let rec skip () = if !pos < n && s.[!pos] = ' ' then (incr pos; skip ()) in
  let rec item () =
    skip ();
    if !pos >= n then failwith "eof"
    else if s.[!pos] = '(' then begin
      incr pos;
      let acc = ref [] in
      let rec loop () =
        skip ();
        if !pos >= n then failwith "unclosed"
        else if s.[!pos] = ')' then incr pos
        else (acc := item () :: !acc; loop ()) in
      loop ();
      Li (List.rev !acc)
    end else begin
      let st = !pos in
      while !pos < n && s.[!pos] <> ' ' && s.[!pos] <> '(' && s.[!pos] <> ')' do incr pos done;
      At (String.sub s st (!pos - st))
    end in
  item ()

let str = function
  | At a when String.length a >= 1 && a.[0] = 's' -> explode (hexdecode (String.sub a 1 (String.length a - 1)))
  | _ -> failwith "string token expected"
let tok = function At a -> explode a | _ -> failwith "token expected"
let oid_of = function
  | At a when String.length a >= 2 && a.[0] = '@' -> nat_of_int (int_of_string (String.sub a 1 (String.length a - 1)))
  | _ -> failwith "oid expected"
let opt_oid = function At "-" | At "ext" -> None | x -> Some (oid_of x)
let rec pos_of_int n = if n = 1 then XH else if n land 1 = 0 then XO (pos_of_int (n lsr 1)) else XI (pos_of_int (n lsr 1))
let z_of_string a =
  let v = int_of_string a in
  if v = 0 then Z0 else if v > 0 then Zpos (pos_of_int v) else Zneg (pos_of_int (- v))

let isrc_of = function
  | Li [At "i"; o; url; id; mdl] -> { is_oid = oid_of o; is_id = str id; is_url = str url; is_model = opt_oid mdl }
  | _ -> failwith "isrc"
let opt f = function At "-" -> None | x -> Some (f x)
let unitdef_of = function
  | Li [At "d"; r; p; e; m; id] -> { ud_ref = str r; ud_prefix = str p; ud_exp = tok e; ud_mult = tok m; ud_id = str id }
  | _ -> failwith "unitdef"
let units_of = function
  | Li (At "u" :: o :: par :: id :: name :: imp :: impref :: defs) ->
    { u_oid = oid_of o; u_parent = opt_oid par; u_id = str id; u_name = str name; u_imp = opt isrc_of imp;
      u_impref = str impref; u_defs = List.map unitdef_of defs }
  | _ -> failwith "units"
let eqref_of = function
  | Li [At "e"; o; a; b] -> { e_var = (match o with At "ext" -> nat_of_int 4999 | _ -> oid_of o); e_mapid = str a; e_connid = str b }
  | _ -> failwith "eqref"
let var_of = function
  | Li (At "v" :: o :: par :: id :: name :: init :: iface :: us :: eqs) ->
    { v_oid = oid_of o; v_parent = opt_oid par; v_id = str id; v_name = str name; v_init = str init; v_iface = str iface;
      v_units = opt units_of us; v_eqs = List.map eqref_of eqs }
  | _ -> failwith "variable"
let reset_of = function
  | Li [At "r"; o; par; id; At order; At oset; v; t; tv; tvid; rv; rvid] ->
    { r_oid = oid_of o; r_parent = opt_oid par; r_id = str id; r_order = z_of_string order; r_order_set = (oset = "1");
      r_var = opt var_of v; r_test = opt var_of t; r_tv = str tv; r_tvid = str tvid; r_rv = str rv; r_rvid = str rvid }
  | _ -> failwith "reset"
let rec comp_of = function
  | Li [At "c"; o; par; id; name; encid; math; imp; impref; Li vars; Li resets; Li kids] ->
    Comp (oid_of o, opt_oid par, str id, str name, str encid, str math, opt isrc_of imp, str impref,
          List.map var_of vars, List.map reset_of resets, List.map comp_of kids)
  | _ -> failwith "component"
let model_of = function
  | Li [At "m"; o; id; name; encid; Li us; Li cs] ->
    { m_oid = oid_of o; m_id = str id; m_name = str name; m_encid = str encid; m_units = List.map units_of us;
      m_comps = List.map comp_of cs }
  | _ -> failwith "model"

(* ---- printing *)
let hs l = "s" ^ hexencode (implode l)
let po o = "@" ^ string_of_int (int_of_nat o)
let popt = function None -> "-" | Some o -> po o
let p_isrc = function
  | None -> "-"
  | Some i -> Printf.sprintf "(i %s %s %s %s)" (po i.is_oid) (hs i.is_url) (hs i.is_id) (popt i.is_model)
let p_units = function
  | None -> "-"
  | Some u ->
    Printf.sprintf "(u %s %s %s %s %s %s%s)" (po u.u_oid) (popt u.u_parent) (hs u.u_id) (hs u.u_name) (p_isrc u.u_imp) (hs u.u_impref)
      (String.concat "" (List.map (fun d -> Printf.sprintf " (d %s %s %s %s %s)" (hs d.ud_ref) (hs d.ud_prefix)
                                       (implode d.ud_exp) (implode d.ud_mult) (hs d.ud_id)) u.u_defs))
let p_var = function
  | None -> "-"
  | Some v ->
    Printf.sprintf "(v %s %s %s %s %s %s %s%s)" (po v.v_oid) (popt v.v_parent) (hs v.v_id) (hs v.v_name) (hs v.v_init) (hs v.v_iface)
      (p_units v.v_units)
      (String.concat "" (List.map (fun e -> Printf.sprintf " (e %s %s %s)" (if int_of_nat e.e_var = 4999 then "ext" else po e.e_var)
                                       (hs e.e_mapid) (hs e.e_connid)) v.v_eqs))
let p_reset r =
  Printf.sprintf "(r %s %s %s %s %s %s %s %s %s %s %s)" (po r.r_oid) (popt r.r_parent) (hs r.r_id) (implode (z_to_string r.r_order))
    (if r.r_order_set then "1" else "0") (p_var r.r_var) (p_var r.r_test) (hs r.r_tv) (hs r.r_tvid) (hs r.r_rv) (hs r.r_rvid)
let rec p_comp = function
  | Comp (o, par, id, name, encid, math, imp, impref, vars, resets, kids) ->
    Printf.sprintf "(c %s %s %s %s %s %s %s %s (%s) (%s) (%s))" (po o) (popt par) (hs id) (hs name) (hs encid) (hs math) (p_isrc imp) (hs impref)
      (String.concat " " (List.map (fun v -> p_var (Some v)) vars))
      (String.concat " " (List.map p_reset resets))
      (String.concat " " (List.map p_comp kids))
let p_model m =
  Printf.sprintf "(m %s %s %s %s (%s) (%s))" (po m.m_oid) (hs m.m_id) (hs m.m_name) (hs m.m_encid)
    (String.concat " " (List.map (fun u -> p_units (Some u)) m.m_units))
    (String.concat " " (List.map p_comp m.m_comps))

let rec p_sx = function
  | A s -> hs s
  | N n -> string_of_int (int_of_nat n)
  | Zn z -> implode (z_to_string z)
  | B b -> if b then "1" else "0"
  | L l -> "(" ^ String.concat " " (List.map p_sx l) ^ ")"
let p_canon l = "[" ^ String.concat " " (List.map (function None -> "-" | Some n -> string_of_int (int_of_nat n)) l) ^ "]"
let p_path p = String.concat "." (List.map (fun n -> string_of_int (int_of_nat n)) p)
let p_eqvs l =
  "{" ^ String.concat " " (List.sort compare (List.map (fun (((p, q), a), b) -> p_path p ^ ">" ^ p_path q ^ ":" ^ hs a ^ ":" ^ hs b) l)) ^ "}"

(* ---- entities *)
type ent = EI of isrc | EU of units | EV of variable | ER of reset | EC of component | EM of model

let ent_of sx = match sx with
  | Li (At "i" :: _) -> EI (isrc_of sx)
  | Li (At "u" :: _) -> EU (units_of sx)
  | Li (At "v" :: _) -> EV (var_of sx)
  | Li (At "r" :: _) -> ER (reset_of sx)
  | Li (At "c" :: _) -> EC (comp_of sx)
  | Li (At "m" :: _) -> EM (model_of sx)
  | _ -> failwith "entity"
let p_ent = function
  | EI i -> p_isrc (Some i) | EU u -> p_units (Some u) | EV v -> p_var (Some v) | ER r -> p_reset r
  | EC c -> p_comp c | EM m -> p_model m
let content = function
  | EI i -> p_sx (content_isrc i)
  | EU u -> p_sx (content_units u)
  | EV v -> p_sx (content_variable v)
  | ER r -> p_sx (content_reset [] r)
  | EC c -> let (s, k) = content_component c in p_sx s ^ " " ^ p_canon k
  | EM m -> let (s, k) = content_model_struct m in p_sx s ^ " " ^ p_canon k ^ " " ^ p_eqvs (model_eqvs true m)
let apply mu = function
  | EI i -> EI (apply_isrc mu i) | EU u -> EU (apply_units mu u) | EV v -> EV (apply_variable mu v)
  | ER r -> ER (apply_reset mu r) | EC c -> EC (apply_component mu c) | EM m -> EM (apply_model mu m)

let new_oids text n0 =
  let out = ref [] in
  let n = String.length text in
  let i = ref 0 in
  while !i < n do
    if text.[!i] = '@' then begin
      let j = ref (!i + 1) in
      while !j < n && text.[!j] >= '0' && text.[!j] <= '9' do incr j done;
      let v = int_of_string (String.sub text (!i + 1) (!j - !i - 1)) in
      if v >= n0 && v < 5000 && not (List.mem v !out) then out := v :: !out;
      i := !j
    end else incr i
  done;
  List.rev !out

let mutation_of news sx =
  let tgt = function
    | At a when String.length a >= 2 && a.[0] = '$' ->
      let k = int_of_string (String.sub a 1 (String.length a - 1)) in
      nat_of_int (if k < List.length news then List.nth news k else 4999)
    | x -> oid_of x in
  let nat_arg = function At a -> nat_of_int (int_of_string a) | _ -> failwith "nat" in
  match sx with
  | Li [At "MIsrcUrl"; t; s] -> MIsrcUrl (tgt t, str s)
  | Li [At "MIsrcId"; t; s] -> MIsrcId (tgt t, str s)
  | Li [At "MUnitsName"; t; s] -> MUnitsName (tgt t, str s)
  | Li [At "MUnitsId"; t; s] -> MUnitsId (tgt t, str s)
  | Li [At "MUnitsImpRef"; t; s] -> MUnitsImpRef (tgt t, str s)
  | Li [At "MUnitsImp"; t; i] -> MUnitsImp (tgt t, opt isrc_of i)
  | Li [At "MUnitsAddUnit"; t; d] -> MUnitsAddUnit (tgt t, unitdef_of d)
  | Li [At "MUnitsRemoveUnit"; t; k] -> MUnitsRemoveUnit (tgt t, nat_arg k)
  | Li [At "MVarName"; t; s] -> MVarName (tgt t, str s)
  | Li [At "MVarId"; t; s] -> MVarId (tgt t, str s)
  | Li [At "MVarInit"; t; s] -> MVarInit (tgt t, str s)
  | Li [At "MVarIface"; t; s] -> MVarIface (tgt t, str s)
  | Li [At "MVarUnits"; t; u] -> MVarUnits (tgt t, opt units_of u)
  | Li [At "MResetId"; t; s] -> MResetId (tgt t, str s)
  | Li [At "MResetOrder"; t; At z] -> MResetOrder (tgt t, z_of_string z)
  | Li [At "MResetRemoveOrder"; t] -> MResetRemoveOrder (tgt t)
  | Li [At "MResetVar"; t; v] -> MResetVar (tgt t, opt var_of v)
  | Li [At "MResetTest"; t; v] -> MResetTest (tgt t, opt var_of v)
  | Li [At "MResetTv"; t; s] -> MResetTv (tgt t, str s)
  | Li [At "MResetTvId"; t; s] -> MResetTvId (tgt t, str s)
  | Li [At "MResetRv"; t; s] -> MResetRv (tgt t, str s)
  | Li [At "MResetRvId"; t; s] -> MResetRvId (tgt t, str s)
  | Li [At "MCompName"; t; s] -> MCompName (tgt t, str s)
  | Li [At "MCompId"; t; s] -> MCompId (tgt t, str s)
  | Li [At "MCompEncId"; t; s] -> MCompEncId (tgt t, str s)
  | Li [At "MCompMath"; t; s] -> MCompMath (tgt t, str s)
  | Li [At "MCompImpRef"; t; s] -> MCompImpRef (tgt t, str s)
  | Li [At "MCompImp"; t; i] -> MCompImp (tgt t, opt isrc_of i)
  | Li [At "MCompAddVar"; t; v] -> MCompAddVar (tgt t, var_of v)
  | Li [At "MCompRemoveVar"; t; k] -> MCompRemoveVar (tgt t, nat_arg k)
  | Li [At "MCompAddReset"; t; r] -> MCompAddReset (tgt t, reset_of r)
  | Li [At "MCompRemoveReset"; t; k] -> MCompRemoveReset (tgt t, nat_arg k)
  | Li [At "MCompAddChild"; t; c] -> MCompAddChild (tgt t, comp_of c)
  | Li [At "MCompRemoveChild"; t; k] -> MCompRemoveChild (tgt t, nat_arg k)
  | Li [At "MModelName"; t; s] -> MModelName (tgt t, str s)
  | Li [At "MModelId"; t; s] -> MModelId (tgt t, str s)
  | Li [At "MModelEncId"; t; s] -> MModelEncId (tgt t, str s)
  | Li [At "MModelAddUnits"; t; u] -> MModelAddUnits (tgt t, units_of u)
  | Li [At "MModelRemoveUnits"; t; k] -> MModelRemoveUnits (tgt t, nat_arg k)
  | Li [At "MModelAddComp"; t; c] -> MModelAddComp (tgt t, comp_of c)
  | Li [At "MModelRemoveComp"; t; k] -> MModelRemoveComp (tgt t, nat_arg k)
  | _ -> failwith "mutation"

let run line =
  match String.split_on_char '|' line with
  | n0s :: fl :: dump :: exts :: mu :: _ ->
    let n0 = int_of_string n0s in
    let n = nat_of_int n0 in
    let b i = fl.[i] = '1' in
    let fx = clone_mk_flags (b 0) (b 1) (b 2) (b 3) (b 4) in
    let extl = List.filter_map (fun t ->
        match String.split_on_char ':' t with
        | [o; "o"] -> Some (int_of_string o, EOrphan)
        | [o; p] -> Some (int_of_string o, EAt (List.map (fun x -> nat_of_int (int_of_string x)) (String.split_on_char '.' p)))
        | _ -> None) (String.split_on_char ' ' exts) in
    let ext o = match List.assoc_opt (int_of_nat o) extl with Some e -> e | None -> EOrphan in
    let x = ent_of (parse dump) in
    let y = match x with
      | EI i -> Some (EI (fst (clone_isrc n i)))
      | EU u -> Some (EU (fst (clone_units fx n u)))
      | EV v -> Some (EV (fst (clone_variable fx n v)))
      | ER r -> Some (ER (fst (clone_reset fx n r)))
      | EC c -> Some (EC (fst (clone_component fx n c)))
      | EM m -> (match clone_model fx ext n m with Some (m', _) -> Some (EM m') | None -> None) in
    (match y with
     | None -> "CRASH"
     | Some y ->
       let c0 = p_ent y in
       let base = c0 ^ "\t" ^ content x ^ "\t" ^ content y in
       if mu = "" then base
       else begin
         let m = mutation_of (new_oids c0 n0) (parse mu) in
         base ^ "\t" ^ p_ent (apply m x) ^ "\t" ^ p_ent (apply m y)
       end)
  | _ -> "ERR(case)"

let () =
  let ic = open_in Sys.argv.(1) in
  (try
     while true do
       let line = input_line ic in
       print_endline (try run line with Failure m -> "ERR(" ^ m ^ ")" | Not_found -> "ERR(notfound)")
     done
   with End_of_file -> ());
  close_in ic
