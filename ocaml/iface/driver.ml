(* OCaml side of the C19 correspondence.  Glue only: parses the identity-based state written by
   harness/c19_driver.cpp (field S0), runs the extracted model, prints the states in the same format.
   argv.(1) = file with one state per line. *)
open Iface_model

let explode s = List.init (String.length s) (String.get s)
let implode l = String.of_seq (List.to_seq l)
let rec nat_of_int n = if n <= 0 then O else S (nat_of_int (n - 1))
let rec int_of_nat = function O -> 0 | S n -> 1 + int_of_nat n
let hexdecode h =
  let n = String.length h / 2 in
  String.init n (fun i -> Char.chr (int_of_string ("0x" ^ String.sub h (2 * i) 2)))
let hexencode s = String.concat "" (List.map (fun c -> Printf.sprintf "%02x" (Char.code c)) (explode s))

(* ---- token reader *)
let toks = ref [||]
let pos = ref 0
let next () = let t = !toks.(!pos) in incr pos; t
let expect w = let t = next () in if t <> w then failwith ("expected " ^ w ^ " got " ^ t)
let rd_int () = int_of_string (next ())
let rd_nat () = nat_of_int (rd_int ())
let rd_str () = let t = next () in
  if String.length t = 0 || t.[0] <> 's' then failwith ("bad string token " ^ t);
  explode (hexdecode (String.sub t 1 (String.length t - 1)))
let rd_opt () = let t = next () in if t = "-" then None else Some (nat_of_int (int_of_string t))
let rd_bool () = (next ()) = "1"
let rec rd_list n f = if n = 0 then [] else let x = f () in x :: rd_list (n - 1) f

let rd_uobj () =
  let t = rd_nat () in let nm = rd_str () in let id = rd_str () in let n = rd_nat () in let imp = rd_bool () in
  let ow = rd_opt () in
  { u_tag = t; u_name = nm; u_id = id; u_nunit = n; u_import = imp; u_owner = ow }
let rd_var () =
  expect "v";
  let t = rd_nat () in let ifc = rd_str () in let n = rd_int () in let eqs = rd_list n rd_nat in let u = rd_opt () in
  { v_tag = t; v_iface = ifc; v_eqs = eqs; v_units = u }
let rec rd_comp () =
  expect "c";
  let t = rd_nat () in let nm = rd_str () in let id = rd_str () in let math = rd_str () in let rs = rd_nat () in
  let imp = rd_bool () in
  let nv = rd_int () in let vs = rd_list nv rd_var in
  let nk = rd_int () in let ks = rd_list nk rd_comp in
  Comp (t, { ci_name = nm; ci_id = id; ci_math = math; ci_resets = rs; ci_import = imp }, vs, ks)
let rd_ext () =
  let t = rd_nat () in let c = rd_opt () in let p = rd_opt () in
  { x_tag = t; x_comp = (match c with None -> None | Some c -> Some (c, p)) }
let rd_model () =
  expect "M"; let mt = rd_nat () in
  expect "H"; let n = rd_int () in let heap = rd_list n rd_uobj in
  expect "L"; let n = rd_int () in let us = rd_list n rd_nat in
  expect "C"; let n = rd_int () in let cs = rd_list n rd_comp in
  expect "X"; let n = rd_int () in let xs = rd_list n rd_ext in
  { m_tag = mt; m_heap = heap; m_units = us; m_comps = cs; m_ext = xs }

(* ---- printer (same format) *)
let pn n = string_of_int (int_of_nat n)
let ps s = "s" ^ hexencode (implode s)
let po = function None -> "-" | Some n -> pn n
let pb b = if b then "1" else "0"
let rec pr_comp b c =
  match c with
  | Comp (t, i, vs, ks) ->
    Buffer.add_string b (Printf.sprintf " c %s %s %s %s %s %s %d" (pn t) (ps i.ci_name) (ps i.ci_id) (ps i.ci_math)
                           (pn i.ci_resets) (pb i.ci_import) (List.length vs));
    List.iter (fun v ->
        Buffer.add_string b (Printf.sprintf " v %s %s %d" (pn v.v_tag) (ps v.v_iface) (List.length v.v_eqs));
        List.iter (fun e -> Buffer.add_string b (" " ^ pn e)) v.v_eqs;
        Buffer.add_string b (" " ^ po v.v_units)) vs;
    Buffer.add_string b (Printf.sprintf " %d" (List.length ks));
    List.iter (pr_comp b) ks
let pr_model m =
  let b = Buffer.create 1024 in
  Buffer.add_string b ("M " ^ pn m.m_tag);
  Buffer.add_string b (Printf.sprintf " H %d" (List.length m.m_heap));
  List.iter (fun u -> Buffer.add_string b (Printf.sprintf " %s %s %s %s %s %s" (pn u.u_tag) (ps u.u_name) (ps u.u_id)
                                             (pn u.u_nunit) (pb u.u_import) (po u.u_owner))) m.m_heap;
  Buffer.add_string b (Printf.sprintf " L %d" (List.length m.m_units));
  List.iter (fun t -> Buffer.add_string b (" " ^ pn t)) m.m_units;
  Buffer.add_string b (Printf.sprintf " C %d" (List.length m.m_comps));
  List.iter (pr_comp b) m.m_comps;
  Buffer.add_string b (Printf.sprintf " X %d" (List.length m.m_ext));
  List.iter (fun x -> Buffer.add_string b (match x.x_comp with
      | None -> Printf.sprintf " %s - -" (pn x.x_tag)
      | Some (c, p) -> Printf.sprintf " %s %s %s" (pn x.x_tag) (pn c) (po p))) m.m_ext;
  Buffer.contents b

let pr_issues l =
  if l = [] then "none" else
    String.concat " " (List.map (function
        | IssIface v -> "I" ^ pn v
        | IssUnreach (v, e) -> "U" ^ pn v ^ "." ^ pn e
        | IssNoParent (v, e) -> "N" ^ pn v ^ "." ^ pn e) l)
let bs b = if b then "true" else "false"

let () =
  let ic = open_in Sys.argv.(1) in
  (try
     while true do
       let line = input_line ic in
       (try
          toks := Array.of_list (List.filter (fun t -> t <> "") (String.split_on_char ' ' line));
          pos := 0;
          let m = rd_model () in
          let one fixed =
            let (mf, ok) = fix_model fixed m in
            Printf.sprintf "FIX %s %s\tVAL %s" (bs ok) (pr_model mf) (pr_issues (validate_connections fixed mf)) in
          let (ml, lok) = link_model m in
          Printf.printf "%s\tLINK %s %s %s %s\tCLEAN %s\tHB %s\tUNFIXED %s\n"
            (one true) (bs lok) (bs (has_unlinked m)) (bs (has_unlinked ml)) (pr_model ml)
            (pr_model (clean_model m)) (pb (model_hidden_bad m)) (one false)
        with e -> Printf.printf "MODEL-ERROR %s\n" (Printexc.to_string e))
     done
   with End_of_file -> ());
  close_in ic
