(* OCaml side of the C19 correspondence.  Glue only: parses the identity-based states written by
   harness/c19_driver.cpp, runs the extracted model, prints in the same format.
   argv.(1) = file with one case per line:  <state before the pre-history> TAB <pre-history commands, ';' separated> TAB <state after>
   (a line without TABs is a single state with an empty pre-history). *)
open Iface_model

let explode s = List.init (String.length s) (String.get s)
let implode l = String.of_seq (List.to_seq l)
let rec nat_of_int n = if n <= 0 then O else S (nat_of_int (n - 1))
let rec int_of_nat = function O -> 0 | S n -> 1 + int_of_nat n
let hexdecode h =
  let n = String.length h / 2 in
  String.init n (fun i -> Char.chr (int_of_string ("0x" ^ String.sub h (2 * i) 2)))
let hexencode s = String.concat "" (List.map (fun c -> Printf.sprintf "%02x" (Char.code c)) (explode s))

(* ---- token reader *)
let toks = ref [||]
let pos = ref 0
let next () = let t = !toks.(!pos) in incr pos; t
let expect w = let t = next () in if t <> w then failwith ("expected " ^ w ^ " got " ^ t)
let rd_int () = int_of_string (next ())
let rd_nat () = nat_of_int (rd_int ())
let str_of_tok t =
  if String.length t = 0 || t.[0] <> 's' then failwith ("bad string token " ^ t);
  explode (hexdecode (String.sub t 1 (String.length t - 1)))
let rd_str () = str_of_tok (next ())
let rd_opt () = let t = next () in if t = "-" then None else Some (nat_of_int (int_of_string t))
let rd_bool () = (next ()) = "1"
let rec rd_list n f = if n = 0 then [] else let x = f () in x :: rd_list (n - 1) f

let rd_uobj () =
  let t = rd_nat () in let nm = rd_str () in let id = rd_str () in let n = rd_nat () in let imp = rd_bool () in
  let ow = rd_opt () in
  { u_tag = t; u_name = nm; u_id = id; u_nunit = n; u_import = imp; u_owner = ow }
let rd_var () =
  expect "v";
  let t = rd_nat () in let ifc = rd_str () in let n = rd_int () in let eqs = rd_list n rd_nat in let u = rd_opt () in
  { v_tag = t; v_iface = ifc; v_eqs = eqs; v_units = u }
let rec rd_comp () =
  expect "c";
  let t = rd_nat () in let nm = rd_str () in let id = rd_str () in let math = rd_str () in let rs = rd_nat () in
  let imp = rd_bool () in
  let nv = rd_int () in let vs = rd_list nv rd_var in
  let nk = rd_int () in let ks = rd_list nk rd_comp in
  Comp (t, { ci_name = nm; ci_id = id; ci_math = math; ci_resets = rs; ci_import = imp }, vs, ks)
let rd_ext () =
  let t = rd_nat () in let c = rd_opt () in let p = rd_opt () in
  { x_tag = t; x_comp = (match c with None -> None | Some c -> Some (c, p)) }
(* -> (model, other models' lists, equality classes) *)
let rd_state text =
  toks := Array.of_list (List.filter (fun t -> t <> "") (String.split_on_char ' ' text));
  pos := 0;
  expect "M"; let mt = rd_nat () in
  expect "H"; let n = rd_int () in let heap = rd_list n rd_uobj in
  expect "L"; let n = rd_int () in let us = rd_list n rd_nat in
  expect "C"; let n = rd_int () in let cs = rd_list n rd_comp in
  expect "X"; let n = rd_int () in let xs = rd_list n rd_ext in
  expect "O"; let n = rd_int () in
  let others = rd_list n (fun () -> let t = rd_nat () in let k = rd_int () in let l = rd_list k rd_nat in (t, l)) in
  expect "Q"; let n = rd_int () in
  let cls = rd_list n (fun () -> let t = rd_nat () in let c = rd_nat () in (t, c)) in
  ({ m_tag = mt; m_heap = heap; m_units = us; m_comps = cs; m_ext = xs }, others, cls)

(* ---- printer (same format, up to and including X) *)
let pn n = string_of_int (int_of_nat n)
let ps s = "s" ^ hexencode (implode s)
let po = function None -> "-" | Some n -> pn n
let pb b = if b then "1" else "0"
let rec pr_comp b c =
  match c with
  | Comp (t, i, vs, ks) ->
    Buffer.add_string b (Printf.sprintf " c %s %s %s %s %s %s %d" (pn t) (ps i.ci_name) (ps i.ci_id) (ps i.ci_math)
                           (pn i.ci_resets) (pb i.ci_import) (List.length vs));
    List.iter (fun v ->
        Buffer.add_string b (Printf.sprintf " v %s %s %d" (pn v.v_tag) (ps v.v_iface) (List.length v.v_eqs));
        List.iter (fun e -> Buffer.add_string b (" " ^ pn e)) v.v_eqs;
        Buffer.add_string b (" " ^ po v.v_units)) vs;
    Buffer.add_string b (Printf.sprintf " %d" (List.length ks));
    List.iter (pr_comp b) ks
let pr_model m =
  let b = Buffer.create 1024 in
  Buffer.add_string b ("M " ^ pn m.m_tag);
  Buffer.add_string b (Printf.sprintf " H %d" (List.length m.m_heap));
  List.iter (fun u -> Buffer.add_string b (Printf.sprintf " %s %s %s %s %s %s" (pn u.u_tag) (ps u.u_name) (ps u.u_id)
                                             (pn u.u_nunit) (pb u.u_import) (po u.u_owner))) m.m_heap;
  Buffer.add_string b (Printf.sprintf " L %d" (List.length m.m_units));
  List.iter (fun t -> Buffer.add_string b (" " ^ pn t)) m.m_units;
  Buffer.add_string b (Printf.sprintf " C %d" (List.length m.m_comps));
  List.iter (pr_comp b) m.m_comps;
  Buffer.add_string b (Printf.sprintf " X %d" (List.length m.m_ext));
  List.iter (fun x -> Buffer.add_string b (match x.x_comp with
      | None -> Printf.sprintf " %s - -" (pn x.x_tag)
      | Some (c, p) -> Printf.sprintf " %s %s %s" (pn x.x_tag) (pn c) (po p))) m.m_ext;
  Buffer.contents b

let pr_issues l =
  if l = [] then "none" else
    String.concat " " (List.map (function
        | IssIface v -> "I" ^ pn v
        | IssUnreach (v, e) -> "U" ^ pn v ^ "." ^ pn e
        | IssNoParent (v, e) -> "N" ^ pn v ^ "." ^ pn e) l)
let bs b = if b then "true" else "false"

(* ---- the pre-history: script commands -> uop (None: a command that does not touch ownership) *)
let parse_op (st : ustate) (cmd : string) : uop option =
  let t = List.filter (fun x -> x <> "") (String.split_on_char ' ' cmd) in
  let n x = nat_of_int (int_of_string x) in
  match t with
  | ["addunits"; m; u] -> Some (OAdd (n m, n u))
  | ["removeunits_i"; m; i] -> Some (ORemoveIdx (n m, n i))
  | ["removeunits_n"; m; s] -> Some (ORemoveName (n m, str_of_tok s))
  | ["removeunits_p"; m; u] -> Some (ORemovePtr (n m, n u))
  | ["removeallunits"; m] -> Some (ORemoveAll (n m))
  | ["takeunits_i"; m; i] -> Some (OTakeIdx (n m, n i))
  | ["takeunits_n"; m; s] -> Some (OTakeName (n m, str_of_tok s))
  | ["replaceunits_i"; m; i; u] -> Some (OReplaceIdx (n m, n i, n u))
  | ["replaceunits_n"; m; s; u] -> Some (OReplaceName (n m, str_of_tok s, n u))
  | ["replaceunits_p"; m; o; u] -> Some (OReplacePtr (n m, n o, n u))
  | ["release"; m] -> (match lists_get st.us_models (n m) with Some _ -> Some (ODestroy (n m)) | None -> None)
  | ["setunits_p"; _; _] -> None
  | _ -> failwith ("pre-history command not modelled: " ^ cmd)

let pr_res = function
  | RBool b -> bs b
  | RPtr None -> "null"
  | RPtr (Some u) -> pn u
  | RVoid -> "-"
  | RInvalid -> "INVALID"

let pr_own (st : ustate) =
  let b = Buffer.create 256 in
  List.iter (fun u -> Buffer.add_string b (Printf.sprintf " %s=%s" (pn u.u_tag) (po u.u_owner))) (visible_heap st);
  Buffer.add_string b " |";
  List.iter (fun (m, l) -> Buffer.add_string b (Printf.sprintf " %s=[%s]" (pn m) (String.concat "," (List.map pn l)))) st.us_models;
  Buffer.contents b

let run_history text0 ops =
  let (m0, others, cls) = rd_state text0 in
  let st0 = { us_heap = m0.m_heap; us_models = (m0.m_tag, m0.m_units) :: others; us_class = cls } in
  let cmds = List.filter (fun c -> String.trim c <> "") (String.split_on_char ';' ops) in
  let (st, res, readd) =
    List.fold_left (fun (st, res, readd) cmd ->
        match parse_op st cmd with
        | None -> (st, "-" :: res, readd)
        | Some o -> let rd = readds st o in let (st', r) = step st o in (st', pr_res r :: res, readd || rd))
      (st0, [], false) cmds in
  Printf.sprintf "OWN %s |%s\tREADD %s" (if res = [] then "-" else String.concat "," (List.rev res)) (pr_own st) (pb readd)

let () =
  let ic = open_in Sys.argv.(1) in
  (try
     while true do
       let line = input_line ic in
       (try
          let (p0, ops, s0) = match String.split_on_char '\t' line with
            | [a; b; c] -> (a, b, c)
            | [a] -> (a, "", a)
            | _ -> failwith "bad case line" in
          let hist = run_history p0 ops in
          let (m, _, _) = rd_state s0 in
          let one fixed =
            let (mf, ok) = fix_model fixed m in
            Printf.sprintf "FIX %s %s\tVAL %s" (bs ok) (pr_model mf) (pr_issues (validate_connections fixed mf)) in
          let (ml, lok) = link_model m in
          Printf.printf "%s\tLINK %s %s %s %s\tCLEAN %s\tHB %s\t%s\tUNFIXED %s\n"
            (one true) (bs lok) (bs (has_unlinked m)) (bs (has_unlinked ml)) (pr_model ml)
            (pr_model (clean_model m)) (pb (model_hidden_bad m)) hist (one false)
        with e -> Printf.printf "MODEL-ERROR %s\n" (Printexc.to_string e))
     done
   with End_of_file -> ());
  close_in ic
