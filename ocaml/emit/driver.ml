(* OCaml side of the C17 correspondence.  Glue only: reads cases, calls the extracted model (EmitDefs), prints.

   One case per line, TAB separated fields "key=value":
     ver=<hex>  type=<analyser model type>  ext=<0|1>
     voi=<rec or ->  states=<rec;rec;...>  vars=<rec;...>      rec = index:type:hexname:hexunits:hexcomponent
     eqs=<eq;eq;...>      eq = type:nlaindex:sib,sib:vtype/index,vtype/index:hex(ast prefix text)
     mml=<hex,hex,...>    one MathML token line per top-level equation (see gen/c17_models.py mml_of_xml)
   Output, TAB separated:
     flags= astflags=  (24 bits, order of EmitDefs.all_helpers)  wf=  sizes=c,n,u  nla=idx:size,...
     helpersC= helpersPy=  (names)   declC= defC= defPy=  (hex, comma separated)
     voiC= statesC= varsC= voiPy= statesPy= varsPy=  (rows name:units:component:type, fields hex, ';' between rows)
     ifaceC= ifacePy= (hex)  implC= implPy=  (pieces: hex literal or H, comma separated)            *)
open Emit_model

let explode s = List.init (String.length s) (String.get s)
let implode l = String.of_seq (List.to_seq l)
let hexdecode h =
  let n = String.length h / 2 in
  String.init n (fun i -> Char.chr (int_of_string ("0x" ^ String.sub h (2 * i) 2)))
let hexencode s =
  let b = Buffer.create (2 * String.length s) in
  String.iter (fun c -> Buffer.add_string b (Printf.sprintf "%02x" (Char.code c))) s;
  Buffer.contents b
let hx l = hexencode (implode l)
let rec nat_of_int n = if n <= 0 then O else S (nat_of_int (n - 1))
let rec int_of_nat = function O -> 0 | S n -> 1 + int_of_nat n
let split c s = if s = "" then [] else String.split_on_char c s

let read_ast (line : string) : ast =
  let toks = Array.of_list (String.split_on_char ' ' line) in
  let pos = ref 0 in
  let next () = let t = toks.(!pos) in incr pos; t in
  let rec node () : ast =
    let t = next () in
    if t = "_" then Null
    else begin
      let ty = match ty_of_name (explode t) with Some x -> x | None -> failwith ("unknown type " ^ t) in
      let v = next () in
      let v = if v = "-" then "" else String.sub v 1 (String.length v - 1) in
      let l = node () in
      let r = node () in
      Node (ty, explode v, l, r)
    end in
  let a = node () in
  if !pos <> Array.length toks then failwith "trailing tokens";
  a

let read_mml (line : string) : mml =
  let toks = Array.of_list (String.split_on_char ' ' line) in
  let pos = ref 0 in
  let next () = let t = toks.(!pos) in incr pos; t in
  let text () = let v = next () in explode (String.sub v 1 (String.length v - 1)) in
  let rec node () : mml =
    match next () with
    | "CI" -> MCi (text ())
    | "CN" -> MCn (text ())
    | "CNE" -> let a = text () in let b = text () in MCnE (a, b)
    | "E" ->
      let name = next () in
      let n = int_of_string (next ()) in
      let kids = List.init n (fun _ -> ()) |> List.map (fun () -> node ()) in
      El (explode name, kids)
    | t -> failwith ("bad mml token " ^ t) in
  let a = node () in
  if !pos <> Array.length toks then failwith "trailing mml tokens";
  a

let vtype_of = function
  | "variable_of_integration" -> VVoi | "state" -> VState | "constant" -> VConstant
  | "computed_constant" -> VComputedConstant | "algebraic" -> VAlgebraic | "external" -> VExternal
  | s -> failwith ("vtype " ^ s)
let mtype_of = function
  | "unknown" -> MUnknown | "ode" -> MOde | "dae" -> MDae | "nla" -> MNla | "algebraic" -> MAlgebraic
  | "invalid" -> MInvalid | "underconstrained" -> MUnderconstrained | "overconstrained" -> MOverconstrained
  | "unsuitably_constrained" -> MUnsuitablyConstrained | s -> failwith ("mtype " ^ s)
let etype_of = function
  | "true_constant" -> ETrueConstant | "variable_based_constant" -> EVariableBasedConstant | "ode" -> EOde
  | "nla" -> ENla | "algebraic" -> EAlgebraic | "external" -> EExternal | s -> failwith ("etype " ^ s)

let read_var s =
  match String.split_on_char ':' s with
  | [i; t; n; u; c] ->
    { av_index = nat_of_int (int_of_string i); av_type = vtype_of t; av_name = explode (hexdecode n);
      av_units = explode (hexdecode u); av_comp = explode (hexdecode c) }
  | _ -> failwith ("bad variable record " ^ s)

let read_eq s =
  match String.split_on_char ':' s with
  | [t; nla; sibs; vars; a] ->
    { ae_type = etype_of t; ae_nla_index = nat_of_int (int_of_string nla);
      ae_sibs = List.map (fun x -> nat_of_int (int_of_string x)) (split ',' sibs);
      ae_vars = List.map (fun x -> match String.split_on_char '/' x with
          | [vt; i] -> (vtype_of vt, nat_of_int (int_of_string i)) | _ -> failwith "bad eq var") (split ',' vars);
      ae_ast = read_ast (hexdecode a) }
  | _ -> failwith ("bad equation record " ^ s)

let bits fl = String.concat "" (List.map (fun b -> if b then "1" else "0") (flags_bits fl))
let pieces ps = String.concat "," (List.map (function Lit s -> hx s | Hole -> "H") ps)
let rows l = String.concat ";" (List.map (fun i ->
    String.concat ":" [hx i.i_name; hx i.i_units; hx i.i_component; hx i.i_type]) l)

let () =
  let ic = open_in Sys.argv.(1) in
  (try
     while true do
       let line = input_line ic in
       let kv = List.map (fun f -> match String.index_opt f '=' with
           | Some i -> (String.sub f 0 i, String.sub f (i + 1) (String.length f - i - 1))
           | None -> (f, "")) (String.split_on_char '\t' line) in
       let get k = List.assoc k kv in
       (try
          let ver = explode (hexdecode (get "ver")) in
          let eqs_mml = List.map (fun h -> read_mml (hexdecode h)) (split ',' (get "mml")) in
          let (_, fl) = analyse_math eqs_mml in
          let eqs = List.map read_eq (split ';' (get "eqs")) in
          let m = { am_type = mtype_of (get "type");
                    am_voi = (if get "voi" = "-" then None else Some (read_var (get "voi")));
                    am_states = List.map read_var (split ';' (get "states"));
                    am_variables = List.map read_var (split ';' (get "vars"));
                    am_has_ext = (get "ext" = "1"); am_equations = eqs; am_flags = fl } in
          let astfl = need_flags_list (List.map (fun e -> e.ae_ast) eqs) in
          let sz = info_sizes m in
          let names p = String.concat "," (List.map (fun h -> implode (helper_name h)) (helpers_emitted p m)) in
          let hexs l = String.concat "," (List.map hx l) in
          let voi p = match m.am_voi with Some v -> rows [voi_info p v] | None -> "" in
          Printf.printf "flags=%s\tastflags=%s\twf=%s\tsizes=%d,%d,%d\tnla=%s\thelpersC=%s\thelpersPy=%s\tdeclC=%s\tdefC=%s\tdeclPy=%s\tdefPy=%s\tvoiC=%s\tstatesC=%s\tvarsC=%s\tvoiPy=%s\tstatesPy=%s\tvarsPy=%s\tifaceC=%s\tifacePy=%s\timplC=%s\timplPy=%s\temptyC=%s\temptyPy=%s\n"
            (bits fl) (bits astfl) (if wf_indices_b m then "1" else "0")
            (int_of_nat sz.sz_component) (int_of_nat sz.sz_name) (int_of_nat sz.sz_units)
            (String.concat "," (List.map (fun (i, s) -> Printf.sprintf "%d:%d" (int_of_nat i) (int_of_nat s)) (nla_systems m)))
            (names profile_C) (names profile_Py)
            (hexs (declared_sigs profile_C m)) (hexs (defined_sigs profile_C m))
            (hexs (declared_sigs profile_Py m)) (hexs (defined_sigs profile_Py m))
            (voi profile_C) (rows (state_info_table profile_C m)) (rows (variable_info_table profile_C m))
            (voi profile_Py) (rows (state_info_table profile_Py m)) (rows (variable_info_table profile_Py m))
            (hx (interface_code PC (Some profile_C) ver (Some m))) (hx (interface_code PPy (Some profile_Py) ver (Some m)))
            (pieces (implementation_code PC (Some profile_C) ver (Some m)))
            (pieces (implementation_code PPy (Some profile_Py) ver (Some m)))
            (hx (method_body_code profile_C [])) (hx (method_body_code profile_Py []))
        with Failure msg -> Printf.printf "MODELERROR %s\n" msg
           | Not_found -> Printf.printf "MODELERROR missing field\n")
     done
   with End_of_file -> ());
  close_in ic
