(* OCaml side of the C12 correspondence: one line per case. Glue only: reads a history, runs the extracted model.

   case   := g0 nsteps step*                       (tokens separated by single spaces)
   step   := P tree | R forests | N | V names forests | A valid names forests | I n tree^n | F forests | O | C | S b
   forests:= n forest^n | @id (defined by an earlier line "deff <id> <forests>")     forest := n tree^n     names := n hex^n
   tree   := E nshex namehex na (namehex valuehex)^na nk tree^nk | T hex | X hex | #id  (X = comment; #id = a tree
             defined by an earlier line "def <id> <tree>", which produces no output)
   hex    := hex of the bytes, "-" for the empty string

   output : per step, joined by " | ":
     P g=<flag after> sens=<0|1> M=<sorted hex of the math string of every component / test_value / reset_value that
         has one, joined by ','> it=<IText on model/component/units/unit/variable/reset> ie=<IElem on the same kinds>
         iempty=<n> notmodel=<0|1>
     R g=.. T=<hex of each printed math, joined by ','>
     V g=.. ciempty=<n> ciref=<n> cnformat=<n>      A g=.. ast=<n nodes>      I/F/O/C/S/N g=..
   then " | end fold=<flag_after> char=<flag_char> last=<last_decisive or ->"                                        *)
open Global_model

let explode s = List.init (String.length s) (String.get s)
let implode l = String.of_seq (List.to_seq l)
let hexdecode h =
  if h = "-" then "" else
  let n = String.length h / 2 in
  String.init n (fun i -> Char.chr (int_of_string ("0x" ^ String.sub h (2 * i) 2)))
let hexencode s =
  let b = Buffer.create (2 * String.length s) in
  String.iter (fun c -> Buffer.add_string b (Printf.sprintf "%02x" (Char.code c))) s;
  Buffer.contents b
let b01 x = if x then "1" else "0"

(* token stream *)
let toks = ref [||]
let pos = ref 0
let next () = let t = !toks.(!pos) in incr pos; t
let next_int () = int_of_string (next ())
let next_str () = explode (hexdecode (next ()))
let rec times n f = if n <= 0 then [] else let x = f () in x :: times (n - 1) f

let defs : (string, xml) Hashtbl.t = Hashtbl.create 97

let rec tree () =
  match next () with
  | t when String.length t > 1 && t.[0] = '#' -> Hashtbl.find defs (String.sub t 1 (String.length t - 1))
  | "E" ->
      let ns = next_str () in
      let name = next_str () in
      let na = next_int () in
      let attrs = times na (fun () -> let n = next_str () in let v = next_str () in (n, v)) in
      let nk = next_int () in
      let kids = times nk tree in
      Elem (ns, name, attrs, kids)
  | "T" -> Text (next_str ())
  | "X" -> Comment (next_str ())
  | t -> failwith ("bad tree token " ^ t)
let forest () = let n = next_int () in times n tree
(* forests defined by an earlier line "deff <id> <forests>" are named @<id> *)
let fdefs : (string, xml list list) Hashtbl.t = Hashtbl.create 97
let forests () =
  let t = next () in
  if String.length t > 0 && t.[0] = '@' then Hashtbl.find fdefs (String.sub t 1 (String.length t - 1))
  else times (int_of_string t) forest
let names () = let n = next_int () in times n next_str

let counted_kind = function
  | KModel | KComponent | KUnits | KUnit | KVariable | KReset -> true
  | _ -> false

(* the math string of every component / test_value / reset_value: concatenation of its captured maths *)
let rec math_groups (e : ent) : string list =
  match e with
  | EMath _ -> []
  | Ent (_, _, kids) ->
      let own = String.concat "" (List.filter_map (function EMath m -> Some (implode (math_string m)) | _ -> None) kids) in
      (if own = "" then [] else [own]) @ List.concat_map math_groups kids

let rec ast_size = function
  | ANode (_, l) -> 1 + List.fold_left (fun a x -> a + ast_size x) 0 l
  | ATok (_, _) -> 1

let vparams names g f =
  validate_math (fun _ -> true) (fun _ -> []) (fun _ _ _ _ -> []) c12_is_basic_real c12_is_int names g f

let run_case line =
  toks := Array.of_list (List.filter (fun s -> s <> "") (String.split_on_char ' ' line));
  pos := 0;
  let g0 = next () = "1" in
  let n = next_int () in
  let g = ref g0 in
  let ops = ref [] in
  let outs = ref [] in
  for _ = 1 to n do
    let kind = next () in
    let (op, extra) =
      match kind with
      | "P" ->
          let doc = tree () in
          let ((e, iss), _) = parse_model !g doc in
          let it = List.length (List.filter (function IText k -> counted_kind k | _ -> false) iss) in
          let ie = List.length (List.filter (function IElem (k, _) -> counted_kind k | _ -> false) iss) in
          let iempty = List.length (List.filter (function IEmpty _ -> true | _ -> false) iss) in
          let nm = List.exists (function INotModel -> true | _ -> false) iss in
          let ms = List.sort compare (List.map hexencode (math_groups e)) in
          (OParse doc, Printf.sprintf " sens=%s M=%s it=%d ie=%d iempty=%d notmodel=%s"
             (b01 (math_sensitive doc)) (String.concat "," ms) it ie iempty (b01 nm))
      | "R" ->
          let fs = forests () in
          let (texts, _) = print_model !g fs in
          (OPrint fs, " T=" ^ String.concat "," (List.map (fun t -> hexencode (implode t)) texts))
      | "N" -> (OPrintNull, "")
      | "V" ->
          let nm = names () in
          let fs = forests () in
          (* the validator reads the math strings one after the other: the flag seen by each is the one left by the previous *)
          let gg = ref !g in
          let iss = List.concat_map (fun f -> let (i, g') = vparams nm !gg f in gg := g'; i) fs in
          let cnt p = List.length (List.filter p iss) in
          (OValidate fs, Printf.sprintf " ciempty=%d ciref=%d cnformat=%d"
             (cnt (function VCiEmpty -> true | _ -> false)) (cnt (function VCiRef _ -> true | _ -> false))
             (cnt (function VCnFormat -> true | _ -> false)))
      | "A" ->
          let valid = next () = "1" in
          let _nm = names () in
          let fs = forests () in
          let gg = ref (step !g (OValidate fs)) in
          let sz = List.fold_left (fun a f -> let (asts, g') = analyse_math !gg f in gg := g';
                                     a + List.fold_left (fun a x -> a + ast_size x) 0 asts) 0 fs in
          (OAnalyse (fs, valid), Printf.sprintf " ast=%d" (if valid then sz else 0))
      | "I" -> let k = next_int () in let docs = times k tree in (OResolve (docs, []), "")
      | "F" -> let fs = forests () in (OFlatten fs, "")
      | "O" -> (OOther, "")
      | "C" -> (OConvert, "")
      | "S" -> let b = next () = "1" in (OSet b, "")
      | t -> failwith ("bad step " ^ t)
    in
    g := step !g op;
    ops := op :: !ops;
    outs := (kind ^ " g=" ^ b01 !g ^ extra) :: !outs
  done;
  let h = List.rev !ops in
  let last = match last_decisive h with Some b -> b01 b | None -> "-" in
  String.concat " | " (List.rev !outs)
  ^ Printf.sprintf " | end fold=%s char=%s last=%s" (b01 (flag_after g0 h)) (b01 (flag_char g0 h)) last

let () =
  let ic = open_in Sys.argv.(1) in
  (try
     while true do
       let line = input_line ic in
       if String.length line > 4 && String.sub line 0 4 = "def " then begin
         (* "def <id> <tree>": a tree that the cases below name as #<id>; no output line *)
         toks := Array.of_list (List.filter (fun s -> s <> "") (String.split_on_char ' ' line));
         pos := 1;
         let id = next () in
         Hashtbl.replace defs id (tree ())
       end else if String.length line > 5 && String.sub line 0 5 = "deff " then begin
         toks := Array.of_list (List.filter (fun s -> s <> "") (String.split_on_char ' ' line));
         pos := 1;
         let id = next () in
         Hashtbl.replace fdefs id (forests ())
       end else
       (try print_endline (run_case line) with e -> print_endline ("MODEL-ERROR " ^ Printexc.to_string e))
     done
   with End_of_file -> ());
  close_in ic
