(* OCaml side of the C13 correspondence.  Glue only: parses a case line into the Coq values (structure, history),
   runs the extracted [run] and prints one canonical line.  No property logic.
   case line:  <script> | <slot table> | <structure> | <ops>      (the first two sections are for the C++ driver)
   usage: driver <case file> [pinned]        "pinned" runs the model of the code before the C13 repairs *)
open Ids_model

let explode s = List.init (String.length s) (String.get s)
let implode l = String.of_seq (List.to_seq l)
let rec nat_of_int n = if n <= 0 then O else S (nat_of_int (n - 1))
let rec int_of_nat = function O -> 0 | S n -> 1 + int_of_nat n
let hexdecode h =
  let n = String.length h / 2 in
  String.init n (fun i -> Char.chr (int_of_string ("0x" ^ String.sub h (2 * i) 2)))
let hexencode s = String.concat "" (List.map (fun c -> Printf.sprintf "%02x" (Char.code c)) (explode s))
let stok t = explode (hexdecode (String.sub t 1 (String.length t - 1)))      (* s<hex> -> coq string *)
let tok s = "s" ^ hexencode (implode s)
let words s = List.filter (fun x -> x <> "") (String.split_on_char ' ' s)
let nat s = nat_of_int (int_of_string s)
let optnat s = if s = "-" then None else Some (nat s)
let b01 s = s = "1"

let kinds = [| KModel; KEncaps; KImport; KUnits; KUnit; KComp; KCompRef; KVar; KReset; KTestValue; KResetValue; KConn; KMap; KMath |]
let kind_names = [| "model"; "enc"; "import"; "units"; "unit"; "comp"; "compref"; "var"; "reset"; "tv"; "rv"; "conn"; "map"; "math" |]
let kind_of_name n = let r = ref KMath in Array.iteri (fun i x -> if x = n then r := kinds.(i)) kind_names; !r
let kind_name k = kind_names.(int_of_nat (kind_index k))
let accs = [| AComp; APair; AModel; AImport; AReset; AUnits; AUnit; AVar |]
let acc_names = [| "comp"; "pair"; "model"; "import"; "reset"; "units"; "unit"; "var" |]
let acc_of_name n = let r = ref AComp in Array.iteri (fun i x -> if x = n then r := accs.(i)) acc_names; !r

(* structure section: N n M model enc { U slot imp k items.. } { C slot imp enc top kids sib { V slot { E map conn other } } { R slot tv rv tvm rvm } { H slot } } *)
let parse_structure ws =
  let n = ref 0 and mslot = ref 0 and eslot = ref 0 in
  let units = ref [] and comps = ref [] in
  (* mutable builders for the current component / variable *)
  let cur_c = ref None and cur_vars = ref [] and cur_resets = ref [] and cur_math = ref [] in
  let cur_v = ref None and cur_eqs = ref [] in
  let flush_v () = (match !cur_v with
      | Some s -> cur_vars := { vs_slot = s; vs_eqs = List.rev !cur_eqs } :: !cur_vars
      | None -> ()); cur_v := None; cur_eqs := [] in
  let flush_c () = flush_v (); (match !cur_c with
      | Some (slot, imp, enc, top, kids, sib) ->
        comps := { cs_slot = slot; cs_imp = imp; cs_enc = enc; cs_top = top; cs_kids = kids; cs_sib = sib;
                   cs_vars = List.rev !cur_vars; cs_resets = List.rev !cur_resets; cs_math = List.rev !cur_math } :: !comps
      | None -> ()); cur_c := None; cur_vars := []; cur_resets := []; cur_math := [] in
  let rec go = function
    | [] -> ()
    | "N" :: x :: r -> n := int_of_string x; go r
    | "M" :: a :: b :: r -> mslot := int_of_string a; eslot := int_of_string b; go r
    | "U" :: s :: imp :: k :: r ->
      let k = int_of_string k in
      let items = List.filteri (fun i _ -> i < k) r in
      let rest = List.filteri (fun i _ -> i >= k) r in
      units := { us_slot = nat s; us_imp = optnat imp; us_items = List.map nat items } :: !units; go rest
    | "C" :: s :: imp :: enc :: top :: kids :: sib :: r ->
      flush_c (); cur_c := Some (nat s, optnat imp, nat enc, b01 top, b01 kids, nat sib); go r
    | "V" :: s :: r -> flush_v (); cur_v := Some (nat s); go r
    | "E" :: m :: c :: o :: r -> cur_eqs := { es_map = nat m; es_conn = nat c; es_other = nat o } :: !cur_eqs; go r
    | "R" :: s :: tv :: rv :: tvm :: rvm :: r ->
      cur_resets := { rs_slot = nat s; rs_tv = nat tv; rs_rv = nat rv; rs_tv_math = b01 tvm; rs_rv_math = b01 rvm } :: !cur_resets; go r
    | "H" :: s :: r -> cur_math := nat s :: !cur_math; go r
    | t :: _ -> failwith ("bad structure token " ^ t) in
  go ws; flush_c ();
  (!n, { st_model = nat_of_int !mslot; st_enc = nat_of_int !eslot; st_units = List.rev !units; st_comps = List.rev !comps })

let parse_op s =
  match words s with
  | ["S"] -> MSetModel O
  | ["S"; k] -> MSetModel (nat k)
  | ["E"; slot; id] -> MEdit (O, nat slot, stok id)
  | ["E"; slot; id; k] -> MEdit (nat k, nat slot, stok id)
  | ["X"] -> MDrop
  | "R" :: k :: alt :: _ -> MStruct (nat k, nat alt)        (* alt is replaced by the pool index below *)
  | ["A"] -> MOp OAssignAll
  | ["T"; k] -> MOp (OAssignType (kind_of_name k))
  | "I" :: k :: slot :: a :: b :: _ -> MOp (OAssignItem { v_kind = kind_of_name k; v_slot = nat slot; v_a = nat a; v_b = nat b })
  | ["C"] -> MOp OClearAll
  | ["i"; id] -> MOp (OItem (stok id))
  | ["x"; id; i] -> MOp (OItemIndex (stok id, nat i))
  | ["l"; id] -> MOp (OItems (stok id))
  | ["u"; id] -> MOp (OIsUnique (stok id))
  | ["n"; id] -> MOp (OItemCount (stok id))
  | ["d"] -> MOp OIds
  | ["D"] -> MOp ODuplicateIds
  | "t" :: a :: id :: _ -> MOp (OTyped (acc_of_name a, stok id))
  | ["P"] -> MOp OPrint
  | _ -> failwith ("bad op " ^ s)

let entry_str owner e = Printf.sprintf "%d.%s:%d:%d:%d" owner (kind_name e.e_kind) (int_of_nat e.e_slot) (int_of_nat e.e_a) (int_of_nat e.e_b)
let result_str owner = function
  | RNone -> "-"
  | RBool b -> if b then "b1" else "b0"
  | RStr s -> tok s
  | RNat n -> string_of_int (int_of_nat n)
  | REntry None -> "undef"
  | REntry (Some e) -> entry_str owner e
  | REntries l -> "[" ^ String.concat "," (List.map (entry_str owner) l) ^ "]"
  | RStrs l -> "[" ^ String.concat "," (List.map tok l) ^ "]"
  | RPrint (l, ok) -> "p" ^ String.concat "," (List.sort compare (List.map tok l)) ^ (if ok then "" else "!fuel")

let snap ids = String.concat "," (List.map tok ids)
let changes_ids = function MOp OAssignAll | MOp (OAssignType _) | MOp (OAssignItem _) | MOp OClearAll -> true | _ -> false

(* case line:  <script> | <tables, one per model, '/'-separated> | <structures, '/'-separated> | <ops>
   ops: S [k] (setModel of model k), E <slot> <id> [k] (edit on model k), X (the stored model is destroyed), the rest
   act on the stored model.  Items are printed as <owner model>.<kind>:<slot>:<a>:<b>. *)
let () =
  let ic = open_in Sys.argv.(1) in
  let c = if Array.length Sys.argv > 2 && Sys.argv.(2) = "pinned" then cfg_pinned else cfg_fixed in
  (try
     while true do
       let line = input_line ic in
       (try
          let secs = String.split_on_char '|' line in
          (* per model: alternatives separated by '~' (alternative 0 = the structure at hand-over); all of them go into one pool *)
          let alts = List.map (fun t -> List.map (fun a -> parse_structure (words a)) (String.split_on_char '~' t))
              (String.split_on_char '/' (List.nth secs 2)) in
          let base = Array.make (List.length alts) 0 in
          let _ = List.fold_left (fun (k, off) l -> base.(k) <- off; (k + 1, off + List.length l)) (0, 0) alts in
          let parsed = List.concat alts in
          let sts = List.map snd parsed in
          let ops = List.map (fun o -> match parse_op o with
              | MStruct (k, alt) -> MStruct (k, nat_of_int (base.(int_of_nat k) + int_of_nat alt))
              | x -> x) (List.filter (fun x -> String.trim x <> "") (String.split_on_char ';' (List.nth secs 3))) in
          let idss0 = List.map (fun l -> List.init (fst (List.hd l)) (fun _ -> [])) alts in
          let stx = Array.to_list (Array.map nat_of_int base) in
          let out = Buffer.create 256 in
          let ms = ref (minit idss0 stx) in
          let dead = Hashtbl.create 4 in
          let cur_snap m =
            let k = int_of_nat m.m_ann.a_model in
            if Hashtbl.mem dead k then "-" else snap (List.nth m.m_ids k) in
          List.iteri (fun i o ->
              (match o with MDrop -> Hashtbl.replace dead (int_of_nat !ms.m_ann.a_model) true | _ -> ());
              let (m1, rs) = mrun c sts !ms [o] in
              ms := m1;
              if i > 0 then Buffer.add_char out ';';
              Buffer.add_string out (result_str (int_of_nat m1.m_ann.a_owner) (List.hd rs));
              if changes_ids o then (Buffer.add_char out '@'; Buffer.add_string out (cur_snap m1))) ops;
          let finals = String.concat "/" (List.mapi (fun k ids -> if Hashtbl.mem dead k then "-" else snap ids) !ms.m_ids) in
          let wfs = List.for_all (fun (n, st) -> wf c st (nat_of_int n)) parsed in
          Printf.printf "%s # final=%s wf=%s err=%s\n" (Buffer.contents out) finals
            (if wfs then "1" else "0") (if !ms.m_ann.a_err then "1" else "0")
        with e -> Printf.printf "MODEL-ERROR(%s)\n" (Printexc.to_string e))
     done
   with End_of_file -> ());
  close_in ic
