(* OCaml side of the C06 correspondence.  Glue only: parses the export written by harness/c06_driver.cpp into the Coq
   records, calls the extracted flatten_model, prints canonical dumps.  No property logic.

   argv[1] = case file, argv[2] (optional) = fuel (default 400), argv[3] (optional) = rounds (default 40); one case per line:
        <fixes: 8 x 0/1 = kids late clash cndeep ref chain ids cycleguard | "cur"> <export>
     export := nlibs model{1 + nlibs} n0        (first model = the model given to flattenModel, then the library)
     model  := "M" name nunits units* ncomps comp* neqs eqv*
     units  := "U" name ("I" url lib ref | "D") ndefs (ref prefix exp log10mult)*
     comp   := "C" name ("I" url lib ref | "D") nroots mx* nvars var* nkids comp*
     var    := oid name units init iface
     mx     := "X" name units text nkids mx*
     eqv    := a b mapid connid                 "~" stands for the empty string
   Output per case (TAB separated):  O=<dump of the origin>@@<dump of library model 0>...  D=<dump of the flat model> |
   D=FCRASH | D=FFUEL | D=FUNMODELLED   W=<1 when every logged write went to an object created during flattening, or to
   the imported component's transient dummy variable (logged as the library owner twice in a row)>
   Dump format: see harness/c06_driver.cpp. *)
open Flatten_model

let explode s = List.init (String.length s) (String.get s)
let implode l = String.of_seq (List.to_seq l)
let rec nat_of_int n = if n <= 0 then O else S (nat_of_int (n - 1))
let rec int_of_nat = function O -> 0 | S n -> 1 + int_of_nat n
let rec pos_of_int n = if n = 1 then XH else if n land 1 = 0 then XO (pos_of_int (n lsr 1)) else XI (pos_of_int (n lsr 1))
let z_of_int n = if n = 0 then Z0 else if n > 0 then Zpos (pos_of_int n) else Zneg (pos_of_int (-n))
let q_of_int n = q_of_ints (z_of_int n) XH
let qs q = let n = implode (q_num_string q) and d = implode (q_den_string q) in if d = "1" then n else n ^ "/" ^ d

type tk = { mutable rest : string list }
let next t = match t.rest with [] -> failwith "short case" | x :: r -> t.rest <- r; x
let next_int t = int_of_string (next t)
let str t = let x = next t in explode (if x = "~" then "" else x)
let times n f = List.init n (fun _ -> f ())

let parse_imp t lib_owner =
  match next t with
  | "D" -> None
  | "I" ->
    let url = str t in
    let k = next_int t in
    let r = str t in
    Some { i_url = url; i_lib = nat_of_int (if k < 0 then 100000 else k); i_ref = r }
  | x -> failwith ("bad import kind " ^ x)

let parse_units own t =
  (match next t with "U" -> () | x -> failwith ("U expected, got " ^ x));
  let name = str t in
  let im = parse_imp t own in
  let n = next_int t in
  let defs = times n (fun () ->
      let r = str t in
      let p = str t in
      let e = next_int t in
      let m = next_int t in
      { uc_ref = r; uc_prefix = p; uc_exp = q_of_int e; uc_mult = q_of_int m }) in
  { u_own = own; u_name = name; u_imp = im; u_defs = defs }

let rec parse_mx t =
  (match next t with "X" -> () | x -> failwith ("X expected, got " ^ x));
  let name = str t in
  let u = str t in
  let text = str t in
  let n = next_int t in
  let kids = times n (fun () -> parse_mx t) in
  MX (name, u, text, kids)

let rec parse_comp own t =
  (match next t with "C" -> () | x -> failwith ("C expected, got " ^ x));
  let name = str t in
  let im = parse_imp t own in
  let nr = next_int t in
  let math = times nr (fun () -> parse_mx t) in
  let nv = next_int t in
  let vars = times nv (fun () ->
      let oid = next_int t in
      let n = str t in
      let u = next t in
      let init = str t in
      let iface = str t in
      { v_oid = nat_of_int oid; v_name = n; v_units = (if u = "~" then None else Some (explode u)); v_init = init; v_iface = iface }) in
  let nk = next_int t in
  let kids = times nk (fun () -> parse_comp own t) in
  Comp (own, name, im, math, vars, kids)

let parse_model own t =
  (match next t with "M" -> () | x -> failwith ("M expected, got " ^ x));
  let name = str t in
  let nu = next_int t in
  let us = times nu (fun () -> parse_units own t) in
  let nc = next_int t in
  let cs = times nc (fun () -> parse_comp own t) in
  let ne = next_int t in
  let es = times ne (fun () ->
      let a = next_int t in
      let b = next_int t in
      let mi = str t in
      let ci = str t in
      { e_a = nat_of_int a; e_b = nat_of_int b; e_map = mi; e_conn = ci }) in
  { m_own = own; m_name = name; m_units = us; m_comps = cs; m_eqs = es }

(* ---- canonical dump *)
let s l = implode l
let dump_imp = function None -> "-" | Some i -> s i.i_url ^ "#" ^ s i.i_ref
let dump_units u =
  s u.u_name ^ ":" ^ dump_imp u.u_imp ^ ":" ^
  String.concat "/" (List.map (fun d -> s d.uc_ref ^ "," ^ s d.uc_prefix ^ "," ^ qs d.uc_exp ^ "," ^ qs d.uc_mult) u.u_defs)
let rec dump_mx (MX (name, u, text, kids)) =
  "<" ^ s name ^ (if u = [] then "" else " u=" ^ s u) ^ ">" ^ s text ^ String.concat "" (List.map dump_mx kids) ^ "</>"
let rec dump_comp (Comp (_, name, im, math, vars, kids)) =
  "(" ^ s name ^ ":" ^ dump_imp im ^ ":" ^ String.concat "" (List.map dump_mx math) ^ ":V[" ^
  String.concat ";" (List.map (fun v ->
      s v.v_name ^ "," ^ (match v.v_units with None -> "~" | Some u -> s u) ^ "," ^ s v.v_init ^ "," ^ s v.v_iface) vars) ^
  "]:K[" ^ String.concat "" (List.map dump_comp kids) ^ "])"

let c_name_of (Comp (_, n, _, _, _, _)) = n
let c_kids_of (Comp (_, _, _, _, _, k)) = k

let dump_model m =
  let vars = model_vars m in     (* (index stack, variable) *)
  let rec names cs p = match p with
    | [] -> []
    | [_] -> []
    | i :: r -> let c = List.nth cs (int_of_nat i) in s (c_name_of c) :: names (c_kids_of c) r in
  let path_of oid =
    match List.find_opt (fun (_, v) -> v.v_oid = oid) vars with
    | Some (p, v) -> String.concat "/" (names m.m_comps p @ [s v.v_name])
    | None -> "OUT:" ^ string_of_int (int_of_nat oid) in
  let eqs = List.map (fun e ->
      let a = path_of e.e_a and b = path_of e.e_b in
      let (a, b) = if a <= b then (a, b) else (b, a) in
      a ^ "=" ^ b ^ "," ^ s e.e_map ^ "," ^ s e.e_conn) m.m_eqs in
  let eqs = List.sort_uniq compare eqs in
  "M{" ^ s m.m_name ^ "|U[" ^ String.concat ";" (List.map dump_units m.m_units) ^ "]|C[" ^
  String.concat "" (List.map dump_comp m.m_comps) ^ "]|E[" ^ String.concat ";" eqs ^ "]}"

let parse_fixes f =
  if f = "cur" then flat_current_fixes
  else { fx_kids = f.[0] = '1'; fx_late = f.[1] = '1'; fx_clash = f.[2] = '1'; fx_cndeep = f.[3] = '1'; fx_ref = f.[4] = '1'; fx_chain = f.[5] = '1'; fx_ids = f.[6] = '1'; fx_cycle_guard = f.[7] = '1' }

let () =
  if Sys.argv.(1) = "--fixes" then begin
    let c b = if b then "1" else "0" in
    let f = flat_current_fixes in
    print_endline (c f.fx_kids ^ c f.fx_late ^ c f.fx_clash ^ c f.fx_cndeep ^ c f.fx_ref ^ c f.fx_chain ^ c f.fx_ids ^ c f.fx_cycle_guard);
    exit 0
  end;
  let ic = open_in Sys.argv.(1) in
  (try
     while true do
       let line = input_line ic in
       (try
          let t = { rest = List.filter (fun x -> x <> "") (String.split_on_char ' ' (String.trim line)) } in
          let fx = parse_fixes (next t) in
          let nlibs = next_int t in
          let origin = parse_model OOrigin t in
          let libs = List.init nlibs (fun k -> parse_model (OLib (nat_of_int k)) t) in
          let n0 = next_int t in
          let echo = String.concat "@@" (List.map dump_model (origin :: libs)) in
          let fuel = nat_of_int (if Array.length Sys.argv > 2 then int_of_string Sys.argv.(2) else 400) in
          let rounds = nat_of_int (if Array.length Sys.argv > 3 then int_of_string Sys.argv.(3) else 40) in
          let res = match flatten_model rounds fuel fx libs origin (nat_of_int n0) with
            | FOk (m, st) -> "D=" ^ dump_model m ^ "\tW=" ^ (if wlog_ok st.wlog then "1" else "0")
            | FCrash -> "D=FCRASH"
            | FFuel -> "D=FFUEL"
            | FUnmodelled -> "D=FUNMODELLED" in
          print_endline ("O=" ^ echo ^ "\t" ^ res)
        with Failure m -> print_endline ("BADCASE " ^ m) | Not_found -> print_endline "BADCASE notfound")
     done
   with End_of_file -> ())
